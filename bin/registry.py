"""Per-property configuration of the driver (test selector, sharding, evidence texts)."""

PROPS = {
    "C07": {
        "run": "^TestC07",
        "fuzz": [('FuzzC07', 90)],
        "shards": 12,
        "rule": "pairs of strictly increasing innovation lists built from a pattern language (mixed / identical / prefix / "
                "interleaved / disjoint blocks / excess tail / single gene / gene-less) with independent mutation numbers and "
                "non-negative coefficient triples; a case is non-trivial when excess+disjoint > 0 and either a disjoint gene "
                "exists or no gene matches; distinct = distinct (len a, len b, E, D, M, pattern) tuples",
        "assumptions": [
            "oracle: set-based reference of the NEAT formula (excess = above the other list's maximum), relative tolerance 1e-9",
            "mutation numbers finite with magnitude <= 1e100 so that the sums do not overflow",
            "compatibility is reached through the tag-guarded forwarders of neat/genetics/verif_hooks.go",
        ],
        "technique": "property-based testing (rapid): generated innovation-list pairs against a set-based reference formula, plus symmetry/identity/method-agreement relations Sub-check 'concurrent': two to four independent cases are first checked alone and then repeatedly at the same time, each in its own goroutine, with the same oracle (what they share is only what the library keeps at package level).",
        "level_text": "Generated-input search: tens of thousands (quick) to millions (thorough) of list pairs covering every alignment pattern named in the property; "
                      "each compared with an independent reference of the formula under both methods. No counter-example = no violation among the generated classes, not a proof.",
        "level_note": "trusted: the reference formula in the harness (set based, 30 lines), Go float64 arithmetic, rapid's generators; tolerance 1e-9 relative",
        "expect_classes": {"concurrent": ["independent cases evaluated at the same time"], "lists": ["innovation numbers beyond 31 bits", "same genome objects compared again after their mutation numbers changed in place", "no matching gene", "gene lists carved from one backing array", "genomes with different numbers of modules", "excess and disjoint", "gene-less side", "different lengths with disjoint genes", "both genomes carry the same id", "options carry a positive compatibility threshold", "matching gene disabled in both genomes"]},
    },
    "C18": {
        "run": "^TestC18",
        "fuzz": [('FuzzC18Scalar', 60), ('FuzzC18Module', 30)],
        "shards": 12,
        "technique": "property-based testing (rapid): generated (type, float64) inputs biased to breakpoints/zeros/extremes against closed-form reference functions, range and monotonicity relations, name/code bijection Sub-check 'concurrent': two to four independent cases are first checked alone and then repeatedly at the same time, each in its own goroutine, with the same oracle (what they share is only what the library keeps at package level).",
        "level_text": "Generated-input search over all 23 registered types: scalar inputs up to |x| = 1e300 incl. breakpoints and their float neighbours, ordered pairs for monotonicity, "
                      "module vectors incl. all-below--9.2e18, all 256 type codes and registered / mangled / random names. Sampling, not a proof over float64.",
        "level_note": "trusted: the harness's table of closed forms, ranges and monotone flags (written from the definitions), Go math library; tolerance 1e-12 relative, monotonicity slack 2^-50 for exp-based functions",
        "rule": "scalar: (type, x, y) with x,y from a mixture of uniform, log-uniform to 1e300, breakpoints and 1-3 ulp neighbours (y adjacent to x half of the time); "
                "module: vectors of length 1-8; name: codes 0-255 and registered/mangled/random names; every case is non-trivial, distinct = distinct (type, high bits of x and y) / (type, len, high bits) / (code, name)",
        "assumptions": ["reference = closed forms written in the harness from the documented definitions", "inputs finite with |x| <= 1e300"],
        "expect_classes": {"concurrent": ["independent cases evaluated at the same time"], "scalar": ["negative zero input", "huge input", "monotonicity pair"], "module": ["all entries below -9.3e18", "more than 16 inputs"], "name": ["registered code", "unregistered code", "registered name", "unknown name"], "calls": ["several refused requests in one sequence", "custom activator registered on another factory"]},
    },
    "C19": {
        "run": "^TestC19",
        "fuzz": [('FuzzC19Series', 60), ('FuzzC19Exp', 60)],
        "shards": 12,
        "technique": "property-based testing (rapid): generated float series in every order against textbook / empirical-quantile references computed on a sorted copy; generated experiment records against aggregates recomputed from the generations Sub-check 'concurrent': two to four independent cases are first checked alone and then repeatedly at the same time, each in its own goroutine, with the same oracle (what they share is only what the library keeps at package level).",
        "level_text": "Generated-input search: series of length 0-400 (duplicates, wide range, sorted / reversed / shuffled) for the ten descriptive statistics incl. panics and receiver mutation; "
                      "synthetic experiments (0-6 trials x 0-12 generations, any solved pattern) for every aggregate named in the property.",
        "level_note": "trusted: the harness's reference statistics (two-pass variance, empirical quantile by definition); tolerance 1e-9 relative to sum|x| for computed values, exact for order statistics; unbiased variance of a single value is not compared",
        "rule": "series: mixture of small-integer / uniform / wide-range / fitness-like values, ascending, descending or shuffled; non-trivial = non-empty and not ascending; "
                "aggregates: non-trivial = at least 2 trials and 3 generations; distinct by (n, leading value, median) resp. (trials, generations, solved trials)",
        "assumptions": ["champions are non-nil (the record format has no presence marker and the library always sets one)", "fitness ties between champions admit any of the tied organisms"],
        "expect_classes": {"concurrent": ["independent cases evaluated at the same time"], "series": ["empty series", "empty series that is not nil", "not ascending", "large common offset, small spread"], "aggregates": ["trial values that held another record before", "accessors called before the comparison", "experiment-level best organism located", "solved trial", "solved and unsolved trials", "trial without generations", "no trials", "generations sorted in place between the two passes", "record with a modular champion (held in memory only)", "record read into an experiment that held other winners and was asked about them"]},
    },
    "C06": {
        "run": "^TestC06",
        "fuzz": [('FuzzC06Dup', 60)],
        "shards": 12,
        "technique": "property-based testing (rapid): generated genomes (disabled/recurrent genes, nil traits, modules) duplicated and compared field by field with a value snapshot; pointer-disjointness; generated mutation sequences on one side with the other side's snapshot as oracle; spawn relation",
        "level_text": "Generated-input search over hand-built well-formed genomes incl. modular ones: equality of every genetic field, no shared mutable object (pointer identity over traits, nodes, links, genes, modules, backing arrays), "
                      "and behavioural independence under up to 6 generated mutators; populations spawned from such genomes differ only in weights / mirrored mutation numbers.",
        "level_note": "trusted: the harness's snapshot/diff (M2) and Build, which round-trip each other on every case; structural mutators are applied to non-modular genomes only",
        "rule": "G-direct genomes (1-5 inputs, 0-2 bias, 1-3 outputs, 0-8 hidden, 1-20 genes, 0-2 modules); non-trivial = genome with a disabled gene, a module or a nil trait; distinct by (#nodes, #genes, #modules, #disabled, #recurrent, #nil traits)",
        "assumptions": ["trait ids are consecutive and >= 1 (0 is the file syntax for 'no trait')", "a panic inside a mutator is attributed to C01/C05, not to C06"],
        "expect_classes": {"dup": ["disabled gene", "recurrent gene", "nil trait", "modular", "disabled module", "module link that carries a trait"], "spawn": ["start genome with disabled genes", "modular start genome"],
                           "history": ["op:duplicate", "disabled gene", "recurrent gene"]},
    },
    "C04": {
        "run": "^TestC04",
        "fuzz": [('FuzzC04', 90)],
        "shards": 12,
        "technique": "property-based testing (rapid): parent pairs constructed from a common gene table (controlled alignment patterns, ties, disabled genes) x 3 crossover methods x seeds, checked gene by gene against the inheritance relation; parents' snapshots as oracle for 'unmodified'",
        "level_text": "Generated-input search: pairs of well-formed genomes of one lineage (shared start genes, splits, links re-invented under new numbers), all fitness orderings incl. the three kinds of tie, "
                      "each child checked against the relation stated in the property (membership, uniqueness, endpoints, weights, donors, enabled flags, node set, traits).",
        "level_note": "trusted: the gene-table generator (its members are re-validated with M1 before use) and the relation coded from the statement; weights compared exactly (they are copied or averaged once)",
        "rule": "G-family pairs: 1-3 inputs, optional bias, 1-2 outputs, up to 12 (24 thorough) structural events, per-member inclusion probability, own weights/flags; non-trivial = parents differ in at least one gene; "
                "distinct by (method, #genes of both parents and child, donor, #single-parent genes from each side)",
        "assumptions": ["parents share a common ancestry: equal innovation number => equal link, equal trait count, all start genes present", "on a full tie (equal fitness and gene count) only 'all single-parent genes from one parent' is required",
                        "nothing is asserted about the enabled flag when the carrying parents disagree or both have it disabled"],
        "expect_classes": {"family": ["single-parent gene that is disabled", "matching gene disabled in exactly one parent", "tie with equal gene counts", "tie, first parent smaller", "tie, second parent smaller", "parents carry the same genes", "single-parent genes inherited"],
                           "history": ["op:mate_multipoint", "op:mate_multipoint_avg", "op:mate_singlepoint", "crossover with the same link under two innovation numbers", "single-parent gene that is disabled", "tie with equal gene counts"]},
    },
    "C11": {
        "run": "^TestC11",
        "fuzz": [('FuzzC11', 90)],
        "shards": 12,
        "technique": "property-based testing (rapid): generated genomes (enabled/disabled, recurrent, self-loop genes, modules incl. overlapping ones) expressed as networks and compared with a structural model; exhaustive ordered-pair queries of the graph view per genome against an adjacency model Sub-check 'concurrent': two to four independent cases are first checked alone and then repeatedly at the same time, each in its own goroutine, with the same oracle (what they share is only what the library keeps at package level). Sub-check 'epochs': generated population histories (all constructors, both executors); after construction and after every turnover each organism's Phenotype() is compared with the organism's genome as it is now.",
        "level_text": "Generated-input search over hand-built well-formed genomes; per genome the network structure is compared positionally / as multisets with the enabled part of the genome and every ordered pair over node ids, control ids and absent ids "
                      "is put to all graph queries (exhaustive per genome, sampled over genomes). Absent results are compared with == nil as a Go caller would.",
        "level_note": "trusted: the adjacency model built from the genome specification; module links have weight 1.0 (the YAML syntax has no weight field)",
        "rule": "G-direct genomes with 0-2 modules; non-trivial = at least one disabled gene and (a recurrent or self-loop gene or an enabled module); distinct by (#nodes, #genes, #disabled, #recurrent, #self-loops, #modules, #enabled modules)",
        "assumptions": ["genomes have at least one gene and one output (Genesis documents an error otherwise)"],
        "expect_classes": {"concurrent": ["independent cases evaluated at the same time"], "epochs": ["turnover that added genes"], "genesis": ["disabled gene", "self-loop gene", "enabled module", "disabled module", "module reading and driving the same node", "genome expressed before in another state", "expressed before under the same network id"]},
    },
    "C12": {
        "run": "^TestC12",
        "fuzz": [('FuzzC12', 90)],
        "shards": 12,
        "technique": "property-based testing (rapid): generated acyclic networks (all scalar activations, 0-3 bias nodes, skip links, outputs feeding hidden nodes) x input vectors x step counts; differential against an independent topological evaluator with a propagated rounding bound Sub-check 'concurrent': two to four independent cases are first checked alone and then repeatedly at the same time, each in its own goroutine, with the same oracle (what they share is only what the library keeps at package level).",
        "level_text": "Generated-input search: each DAG is evaluated by the standard solver (forward steps, and recursive steps when a hidden node exists) and by three fresh fast solvers (forward, recursive, relax) and compared with the harness's own "
                      "one-pass topological evaluation; the evidence counts the cases in which a bias link demonstrably matters.",
        "level_note": "trusted: the topological evaluator and its rounding bound (global Lipschitz constants per activation); it shares only the activation function table with the solvers (C18 checks that table); cases whose bound exceeds 1e-7 or that evaluate step/sign at the jump are discarded and counted",
        "rule": "G-net DAGs: 1-4 inputs, 0-3 bias, 0-8 hidden, 1-3 outputs, random topological order independent of ids, extra-link probability 0-0.6, weights in [-5,5] with occasional +-100; built from constructors or through Genesis; "
                "non-trivial = a bias link moves an output by > 1e-6 and depth >= 2; distinct by (#in, #bias, #hidden, #out, #links, depth)",
        "assumptions": ["every neuron is reachable from a sensor and each ordered pair carries at most one link (as in every feed-forward genome)", "relaxation is run with the smallest positive delta and a budget of #neurons+2 steps; only the value, not the relaxed flag, is asserted"],
        "expect_classes": {"concurrent": ["independent cases evaluated at the same time"], "dag": ["bias link moves an output by more than 1e-6", "weights rewritten in place after a solver was derived", "explicit bias values loaded before the evaluation", "flushed between the two vectors", "more than 128 neurons", "several bias nodes", "depth >= 3", "network expressed from a genome", "network built from constructors", "second input vector on the same instances", "output list in another order than the node list", "second vector evaluated by another way of activation"]},
    },
    "C13": {
        "run": "^TestC13",
        "quick_pct": 60,
        "fuzz": [('FuzzC13', 90)],
        "shards": 12,
        "technique": "property-based testing (rapid): generated networks (cyclic with self-loops and parallel links, acyclic, modular) x generated operation histories x flush x operation sequences; lock-step differential against a freshly built instance with bit-equal outputs Sub-check 'concurrent': two to four independent cases are first checked alone and then repeatedly at the same time, each in its own goroutine, with the same oracle (what they share is only what the library keeps at package level).",
        "level_text": "Generated-input search with a differential oracle: instance A runs a history of 0-10 operations, is flushed and then runs a sequence of 1-10 operations in lock step with a fresh instance B; after every step the reported flags / errors and the outputs (bit patterns) must agree. "
                      "Both the standard network and the fast solver; plus repeated evaluation of one organism on the same inputs.",
        "level_note": "trusted: that two instances built from the same specification are identical before any operation (same constructor calls); sensor vectors have a length the solver documents as valid",
        "rule": "topologies: 2/3 cyclic G-net (link probability 0.05-0.6, self-loops, recurrent flags, parallel links), 1/6 DAG, 1/6 modular genome through Genesis; operations: load / activate(k) / forward(k) / recursive / depth-with-cap(k) for the network, load / forward(k) / recursive / relax(k, delta) for the fast solver; "
                "non-trivial = the network has a cycle and the history contains an activation after a sensor load; distinct by (solver, #nodes, #links, history length, sequence length)",
        "assumptions": ["bit equality of outputs (NaN equals NaN): both instances perform the same floating-point operations in the same order"],
        "expect_classes": {"concurrent": ["independent cases evaluated at the same time"], "flush": ["network with cycles", "fast solver built with the public constructor (bias links as ordinary connections)", "network with more than 128 neurons", "fresh solver derived from the network object of the flushed one", "feed-forward network", "modular network", "fast solver", "standard solver", "history activates after a sensor load", "neuron with an unregistered activation type (activations fail)"], "organism": ["recurrent organism"]},
    },
    "C14": {
        "run": "^TestC14",
        "fuzz": [('FuzzC14', 90)],
        "shards": 12,
        "technique": "property-based testing (rapid): generated DAGs and cyclic graphs with hidden nodes; depth compared with a dynamic-programming longest path; cap relation on fresh instances; generated query sequences on one instance for idempotence Sub-check 'concurrent': two to four independent cases are first checked alone and then repeatedly at the same time, each in its own goroutine, with the same oracle (what they share is only what the library keeps at package level).",
        "level_text": "Generated-input search: for acyclic graphs the reported depth is compared with an independent DP longest path; for cyclic graphs range and termination; for every cap 1..D+2 the capped result on a fresh instance; "
                      "and sequences of up to 4 capped/uncapped queries on one instance, each of which must answer as a fresh network would.",
        "level_note": "trusted: the DP longest-path model; termination is observed (a hang is reported by the driver as a timeout / crash with the case that was running), not proven; graphs have at most 12 neurons because the library enumerates simple paths",
        "rule": "2/3 DAGs (1-8 hidden, orphans allowed), 1/3 cyclic graphs (1-6 hidden, self-loops, parallel links); caps 0-8; non-trivial = depth >= 3 and a capped query below the depth precedes the final query; distinct by (#nodes, #links, depth, acyclic, caps)",
        "assumptions": ["non-modular networks with at least one hidden node (the statement's domain)"],
        "expect_classes": {"concurrent": ["independent cases evaluated at the same time"], "depth": ["caps around a depth above 8", "query sequence on an instance that was never queried before", "more than 32 nodes", "dense network (more than 100 links)", "paths printed between the queries", "expressed from a genome that also carries a disabled module", "acyclic", "cyclic", "cap below the depth", "capped query hit the cap before the final query", "depth >= 3"]},
    },
    "C15": {
        "run": "^TestC15",
        "fuzz": [('FuzzC15Genome', 90)],
        "shards": 12,
        "technique": "property-based testing (rapid): write->read round trips of generated genomes (plain, YAML with modules), organisms (binary), populations (genome by genome and by species), fast-solver model files (differential outputs) and experiment records, compared under the harness's own genetic equality Sub-check 'concurrent': two to four independent cases are first checked alone and then repeatedly at the same time, each in its own goroutine, with the same oracle (what they share is only what the library keeps at package level).",
        "level_text": "Generated-input search with round-trip oracles: arbitrary float64 weights and trait parameters, all 20 scalar activation names, nil traits, disabled and recurrent genes, modules in YAML; populations of a common lineage through Population.Write / WriteBySpecies and ReadPopulation; "
                      "restored fast solvers must produce bit-identical outputs on generated load/step sequences; experiments must restore trials, generations, champions and the derived fitness/complexity/diversity/winner statistics.",
        "level_note": "trusted: the harness's snapshot equality (M2); trait ids >= 1 (0 is the file syntax for 'no trait'), module link weights 1.0 (no weight syntax), champions non-nil and non-modular (the record stores the plain encoding, no presence marker)",
        "rule": "genome: G-direct (>= 1 gene), half plain, half YAML with 0-2 modules; non-trivial = a weight that is not a float32 value plus a disabled or recurrent gene; organism/experiment: G-experiment records; population: 1-6 members of a G-family lineage; solver: DAG / cyclic / modular networks x 1-8 operations",
        "assumptions": ["weights, trait parameters and fitness values are finite (NaN/Inf have no textual syntax here)"],
        "expect_classes": {"concurrent": ["independent cases evaluated at the same time"], "genome": ["encoding:plain", "encoding:YAML", "disabled gene", "recurrent gene", "nil trait", "modular"], "population": ["written by species (with comments)", "written genome by genome"],
                           "solver": ["modular solver", "solver with bias"], "experiment": ["solved trials"]},
    },
    "C20": {
        "run": "^TestC20",
        "fuzz": [('FuzzC20', 90)],
        "shards": 12,
        "technique": "property-based testing (rapid) with fault injection: generated (trials, generations, solved pattern, fault point, observer on/off, executor) scenarios; the recorded call trace of evaluator and observer is compared with a protocol model Faults include a context ended inside an observer callback (trial start, generation evaluated, trial finish) and a context that is over before the run starts.",
        "level_text": "Generated-input search over run scenarios incl. injected evaluator errors and context cancellation at every (trial, generation) point: the harness's evaluator/observer record every call with the identity of the population and its organisms; "
                      "an undisturbed run must reproduce the model's trace exactly, a disturbed run must reproduce it up to the fault, evaluate nothing afterwards, repeat no notification and return the fault to the caller.",
        "level_note": "trusted: the 25-line protocol model; the harness evaluator honours the implicit preconditions of every shipped evaluator (finite non-negative fitness for all organisms, a champion on solved generations)",
        "rule": "1-5 trials x 1-8 generations, per trial a solved generation or none, fault none/error/cancel at a generated point, observer present 3/4, Trials nil or pre-sized, sequential or parallel executor, population 3-8; "
                "non-trivial = a trial solved before its last generation or a fault after a completed trial; distinct by the whole scenario tuple",
        "assumptions": ["after a fault only 'no further evaluation, no repeated notification, fault returned' is required; a cancellation in the very last planned generation may return nil"],
        "expect_classes": {"protocol": ["context ended inside an observer callback (finish)", "context ended inside an observer callback (epoch)", "context ended inside an observer callback (start)", "fault:none", "fault:deadline", "zero trials configured", "zero generations configured", "maximal number of generations configured (run until solved)", "observer handed over by value (field-less struct)", "observer reads the running experiment through its accessors", "fault:error", "fault:cancel", "evaluator error kind:canceled", "evaluator error kind:deadline", "evaluator failed in the generation it reported solved", "pre-sized record longer than the configured number of trials", "the experiment value was run once before", "options copied from a used object, context from the copy", "context that already carried other options", "with observer", "without observer", "parallel executor", "trial solved before the last generation", "fault after a completed trial"]},
    },
    "C01": {
        "run": "^TestC01",
        "fuzz": [('FuzzC01History', 90)],
        "shards": 12,
        "timeout_quick": 1200,
        "technique": "stateful property-based testing (rapid): data-driven operator state machine over a genome pool with an innovation context (duplicate, 10 mutators, 3 crossovers, end-of-generation) with the well-formedness predicate as invariant after every action; generated population histories (3 constructors x options x fitness programs x both executors) with the predicate on every organism after every turnover",
        "level_text": "Model-based / stateful generation: the closure property is sampled by long compositions of operators (up to 60, thorough 150 actions per history) on genomes of one lineage, the invariant (exactly the clauses of the statement incl. pointer identity of endpoints, lookup by id, ancestors' IO nodes, Genesis succeeds) evaluated after every step; "
                      "plus spawned / random / re-read populations turned over for up to 15 (40) epochs under both executors.",
        "level_note": "trusted: the well-formedness predicate M1 (the generators' own outputs are validated with it first); operators receive genomes without a stale phenotype, as every caller in the library does; random populations containing a gene-less genome are outside the quantifier and skipped (counted)",
        "rule": "history: start genome G-direct (non-modular, 1-10 genes), G-opts, 1-60 actions; a step is non-trivial when a structural mutator succeeded on a genome that already had a hidden node or a disabled gene; epochs: non-trivial turnover = population with hidden nodes, disabled or recurrent genes; distinct by shape tuples",
        "assumptions": ["trait ids consecutive, sensors carry the lowest node ids (as in every shipped genome and as add-link assumes)", "fitness finite, non-negative, <= 1e12"],
        "expect_classes": {"history": ["succeeded:add_node", "succeeded:add_link", "succeeded:connect_sensors", "new gene inserted in the middle of the gene list (innovation reused from the record)", "new recurrent gene", "crossover with the same link under two innovation numbers", "op:mate_singlepoint", "end of generation"],
                           "epochs": ["constructor:spawn", "constructor:random", "constructor:read", "constructor:reread", "parallel executor", "sequential executor", "turnover that grew hidden nodes", "turnover with several species"], "modular": ["modular"]},
    },
    "C05": {
        "run": "^TestC05",
        "fuzz": [('FuzzC05', 90)],
        "shards": 12,
        "technique": "stateful property-based testing (rapid): the operator state machine of C01 with an exact before/after delta oracle per mutator call (value snapshots of the genome and the boolean result)",
        "level_text": "Model-based generation: subject genomes are pool members reached by generated operator histories; the innovation record is empty, matching (another member performed the same mutation earlier in the generation) or unrelated; "
                      "after every mutator call the snapshot delta is compared with the documented effect.",
        "level_note": "trusted: the snapshot (M2) and the delta relation coded from the statement; unsuccessful add-node/add-link calls and flag changes by weight/trait mutators are outside the statement: counted, not asserted",
        "rule": "same histories as C01; a step is non-trivial when the mutator reported success (structural) or changed the genome (parametric); distinct by (mutator, result, #nodes, #genes, #disabled, #recurrent, #new genes, #changed genes)",
        "assumptions": ["toggle-enable is checked through its end state: every node that lost an enabled outgoing gene still has one"],
        "expect_classes": {"history": ["split of a recurrent gene", "add-node reused a recorded innovation", "add-link reused a recorded innovation", "add-link: recurrent link", "connect-sensors connected a sensor", "re-enable with several disabled genes", "toggle changed a flag", "genome with genes from a bias node"]},
    },
    "C02": {
        "run": "^TestC02",
        "shards": 12,
        "timeout_quick": 1200,
        "technique": "stateful property-based testing (rapid): generated population histories (constructor x options x fitness program x executor x seed) with the partition / size / id / age invariants checked after every turnover against a snapshot taken before it",
        "level_text": "Generated epoch histories of up to 25 (60) turnovers: all fitness programs (all-zero, constant, uniform, heavy-tailed, single dominant, distinct, stagnating, sparse, genome-dependent), thresholds giving 1..PopSize species, babies stolen up to half the population, both executors; "
                      "after each NextEpoch: no error, exact size, no organism of the old generation, species form a partition that the organisms agree with, ids unique and never reused (set of all ids seen in the history), ages per the stated rule.",
        "level_note": "trusted: the harness's bookkeeping of which species existed before each turnover (pointer identity) and of all species ids seen; fitness finite, non-negative, <= 1e12",
        "rule": "G-epochs scenarios, population 3-40 (120 thorough); a turnover is non-trivial when it starts with >= 2 species, can steal babies (BabiesStolen > 0 and a species older than 5) or runs the all-zero fallback; distinct by (epoch, #species, size, program, stolen, executor, #old species)",
        "assumptions": ["mate_multipoint_avg_prob + mate_singlepoint_prob > 0 (the method is chosen with their ratio)", "random populations containing a gene-less genome are skipped (counted)",
                        "known finding (known_findings.txt): fitness x age significance above the largest float64 is excluded by construction (age significance forced to 1 for near-maximal fitness, counted) and probed by a fixed case on every run"],
        "expect_classes": {"epochs": ["organisms expressed and activated before the evaluation", "more stolen babies requested than half the population", "fitness program changes during the history", "species:1", "species:2-5", "species:6+", "turnover founding new species", "turnover with species extinction", "constructor:file", "turnover repeated after a cancelled attempt", "options object is a by-value copy of a used one", "executor object turned over another population before", "fitness values at the bottom of the float64 range", "log level debug", "turnover where babies can be stolen", "fitness:zero", "fitness values whose sum overflows", "parallel executor", "constructor:random", "constructor:read", "constructor:reread"]},
    },
    "C03": {
        "run": "^TestC03",
        "fuzz": [('FuzzC03History', 90)],
        "shards": 12,
        "timeout_quick": 1200,
        "technique": "stateful property-based testing (rapid): generated population histories with high structural-mutation rates under the sequential (and sometimes the parallel) executor; an innovation ledger kept by the harness over the whole history is the oracle; plus operator histories, and structural mutations interleaved by the harness at the shared calls of the innovation record (one meaning per number under every interleaving) Sub-check 'forget': the same split of the same gene is performed against the population's record in two consecutive generations (a real turnover in between) and must receive new numbers the second time.",
        "level_text": "Generated epoch histories; after every turnover every gene and node of every organism is entered into a ledger (innovation -> endpoints+flag, node id -> role): a known number must denote the same link, unknown numbers/ids must exceed the maxima before the turnover, "
                      "equal new links must share one number and equal splits one node id within a generation, and the innovation record must be empty afterwards.",
        "level_note": "trusted: the ledger (two maps and two maxima); the split clause identifies a split by (source, target, flag, innovation of the carrier's split gene); parallel runs are covered by C16 for the first two clauses only",
        "rule": "G-epochs scenarios with structural rates biased upwards, recurrent-only probability 0-0.7, small genomes (collisions of identical innovations are frequent), spawn/random/read constructors; a turnover is non-trivial when it issued new innovation numbers; distinct by (epoch, max innovation, max node id, #species, rec+non-rec pair present)",
        "assumptions": ["sequential executor"],
        "expect_classes": {"forget": ["same split repeated one generation later"], "wide": ["more than 1024 innovations in one generation"], "interleaved": ["add_node interrupted by another structural mutation (result true)"], "epochs": ["innovation shared by several organisms of one generation", "same split performed by several organisms of one generation", "recurrent and non-recurrent link on the same endpoints", "same link under different numbers in different generations", "turnover issuing new innovation numbers"],
                           "history": ["same link invented by several genomes of one generation", "same split performed by several genomes of one generation", "link of an earlier generation invented again under a new number", "end of generation"]},
    },
    "C10": {
        "run": "^TestC10",
        "shards": 12,
        "timeout_quick": 1200,
        "technique": "stateful property-based testing (rapid): generated population histories with distinct positive fitness; the value snapshot of every species' fittest genome taken before a turnover is searched in the next generation for every species whose final quota exceeds five Sub-check 'stepwise': the terminal turnover of a history is run phase by phase through the tag-guarded hooks; the quota is read between the executor's preparation and the reproduction of the species, the champion's copy is searched among the babies.",
        "level_text": "Generated epoch histories of up to 40 (80) turnovers so that champions accumulate hidden nodes and disabled genes, with and without stolen babies and with stagnating fitness (delta coding); "
                      "oracle: existence of a genetically identical genome (every field of the snapshot except the id) in the new generation.",
        "level_note": "trusted: snapshot equality M2; the quota is read from the old species object after the turnover (its final value including stolen babies and delta coding)",
        "rule": "G-epochs scenarios with the 'distinct' and 'stagnating' fitness programs, population 6-40 (100), sequential executor; non-trivial = species with quota > 5 whose champion carries a disabled gene; distinct by (epoch, species id, quota, #genes, #disabled, #recurrent)",
        "assumptions": ["fitness values distinct and positive, so the fittest organism of a species is unique"],
        "expect_classes": {"stepwise": ["species with quota > 5"], "epochs": ["species with quota > 5", "quota exactly 6", "champion with disabled genes", "champion with recurrent genes", "quota set by delta coding", "babies stolen configured"]},
    },
    "C08": {
        "run": "^TestC08",
        "fuzz": [('FuzzC08Direct', 90)],
        "shards": 12,
        "timeout_quick": 1200,
        "technique": "property-based testing (rapid): generated lineages arriving in generated orders and batches into a population, thresholds placed between observed pairwise distances; the assignment rule is replayed with the reference distance (decision-robust oracle); constructor and epoch paths checked through the public API",
        "level_text": "Generated-input search: (a) direct speciation of 2-40 arrivals drawn from a constructed lineage of 3-12 (20) genomes in 1..n batches, threshold at a midpoint of the sorted pairwise distances so that most decisions are far from the boundary, both compatibility methods; "
                      "(b) NewPopulation / NewPopulationRandom / ReadPopulation replayed in population order; (c) after every turnover of generated histories every organism is the founder of its species or within the threshold of the representative it was compared with.",
        "level_note": "trusted: the reference distance M4 and the replay of the rule; decisions within 1e-9 relative of the threshold or of a second-best candidate are accepted either way and counted; in (c) the representative of a surviving species is the old generation's fittest member (fitness values are distinct there)",
        "rule": "direct: non-trivial arrival = at least two robustly compatible species of which the first is not the closest (separates 'closest' from 'first compatible'); epochs: non-trivial turnover = more than one species afterwards; distinct by (arrival index, #species, #compatible, chosen, first compatible) / (epoch, #species, size)",
        "assumptions": ["representative of a species = its first organism at the time of the comparison", "threshold > 0"],
        "expect_classes": {"direct": ["arrival with several compatible species", "first compatible species is not the closest", "arrival founding a species while others exist", "several batches", "method:fast", "method:linear", "distance exactly equal to the threshold", "species removed between arrivals"],
                           "epochs": ["member of a surviving species", "member of a new species", "founder of a species founded in this turnover", "species founded in a turnover in which another went extinct", "another pre-existing species was compatible too", "constructor:random", "constructor:read", "constructor:reread"],
                           "stepwise": ["babies arrive while several species are alive", "a species with a zero quota is alive while the babies arrive", "first compatible species is not the closest"]},
    },
    "C09": {
        "run": "^TestC09",
        "shards": 12,
        "timeout_quick": 1200,
        "technique": "stateful property-based testing (rapid): population states reached by generated epoch histories, then one stepwise terminal turnover through tag-guarded phase hooks (adjust+apportion / full preparation+reproduction / plain NextEpoch) judged by an arithmetic model of expected offspring, quota bounds, conservation and parent selection",
        "level_text": "Generated histories end in one of three terminal steps: A - fitness adjustment and apportionment called separately (shared fitness factor, expected offspring = adjusted / population mean, quota within one of the members' sum plus at most one make-up offspring, zero-quota species removed, elimination flags = everything outside the top floor(s*n)+1); "
                      "B - the executor's own preparation phase (quotas still total the population size after stealing / delta coding, no negative quota, species lists are the top set, every species produces exactly its quota); C - plain NextEpoch (totals and expected-offspring relation on the old generation's objects).",
        "level_note": "trusted: the arithmetic model (bounds, not a re-implementation of the carry loop); the per-species adjustment factor is only required to be a product of the documented penalty 0.01 and the age significance, divided by the species size - the ages at which they apply are not asserted",
        "rule": "G-epochs scenarios (fitness programs with at least one positive value incl. values of both signs, scales from 5e-324 to 1e305, DropOffAge 1-8, babies stolen 0..PopSize/2, population 4-40; one history in six repeats a cancelled turnover after a new evaluation), 0-19 ordinary epochs, then the terminal step; non-trivial = at least two species with different sizes or ages; distinct by (step, generation, #species, #sizes, #ages, size, stolen)",
        "assumptions": ["at least one positive fitness value (cases without are skipped and counted)", "sequential executor phases"],
        "expect_classes": {"stepwise": ["terminal step A", "terminal step B", "terminal step C", "several species", "stagnation penalty active", "youth boost active", "species purged for a zero quota", "species that loses members before reproduction", "survival threshold keeps the whole species", "species with a zero quota did not reproduce", "babies stolen configured", "organism with a negative raw fitness", "turnover repeated after a cancelled attempt and a new evaluation", "terminal step D", "clone turnover: offspring attributed to the species that produced them", "mean adjusted fitness below 2^-900 (quotients formed from scaled values)"]},
    },
    "C16": {
        "run": "^TestC16",
        "quick_pct": 100,
        "race": True,
        "shards": 12,
        "fuzz": [('FuzzC16Interleaved', 90)],
        "gomaxprocs": [16, 1, 2, 4],
        "replay_times": 5,
        "schedule_dependent": True,
        "timeout_quick": 1500,
        "timeout_thorough": 5400,
        "technique": "property-based testing (rapid) under the Go race detector: generated population histories with the parallel executor (1..PopSize species, high structural-mutation rates, several GOMAXPROCS values); any race report is a violation, and the C01/C02/C03/C10 invariants are checked after every parallel turnover; histories end with a turnover under a cancelled context (failure path of every reproduction goroutine). Second generator with a harness-owned schedule: structural mutations of genomes of different species run against a wrapper of the population's innovation record that lets another species' complete mutation happen before a generated one of the (atomic) shared calls - every such interleaving must keep one meaning per innovation number and node id",
        "level_text": "Generated epoch histories run in a binary built with -race: the detector is happens-before based, so two conflicting unordered accesses are reported whether or not they overlapped in time in the observed run; "
                      "the generator makes 'several species performing structural mutations in one turnover' the common case and the evidence counts such turnovers. Logical guarantees are checked on the interleavings that happened.",
        "level_note": "trusted: the Go race detector (no false positives; races on paths that were not executed stay invisible); schedules are sampled, not enumerated - logical errors that need one particular interleaving are only found by chance; replays re-run a case 5 times",
        "rule": "G-epochs scenarios with the parallel executor, population 3-30 (60), up to 12 (30) epochs, shards run with GOMAXPROCS 16/1/2/4; non-trivial turnover = at least two species (reproduction goroutines) and new innovation numbers issued; distinct by (epoch, #species, #species with innovations, max innovation, size). Interleaved: G-family of 4 related genomes, 1-12 (30) structural mutations each interrupted 0-2 times before its 1st-5th shared call; non-trivial = at least two steps in which an interruption took place",
        "assumptions": ["non-modular genomes (the wire format between the goroutines has no module syntax)", "identical numbers for identical innovations are not required under the parallel executor (C03 promises them for the sequential one)"],
        "expect_classes": {"parallel": ["population of more than 64 organisms", "species:1", "species:2-5", "species:6+", "turnover with several reproduction goroutines and new innovations", "turnover founding new species", "turnover under a cancelled context returned an error"],
                           "interleaved": ["add_link interrupted by another structural mutation (result true)", "add_node interrupted by another structural mutation (result true)"]},
    },
    "C17": {
        "run": "^TestC17",
        "quick_pct": 150,
        "shards": 12,
        "cross_process": True,
        "history_dependent": True,
        "timeout_quick": 1200,
        "technique": "property-based testing (rapid): generated scenarios (constructor, options, deterministic fitness program incl. a genome-dependent one, seed, epochs) run twice in one process with unrelated work in between, and in two differently configured processes; canonical dumps (floats as bit patterns) must be identical The second run may use a new executor object per turnover, an options object loaded from a file or copied from a used one; digests are compared after construction and after every turnover.",
        "level_text": "Generated-input search with a metamorphic oracle (same inputs => same outputs): every scenario is evolved twice with interference between the runs (another population under another seed, allocations, a garbage collection, map churn) and the complete canonical serialisation of the final population plus Population.Write text are compared; "
                      "the driver additionally runs a shard in two processes (GOMAXPROCS 1 / 16, different environment size => different address-space layout) and compares the digests scenario by scenario.",
        "level_note": "trusted: the canonical dump covers every exported field of organisms, genomes and species and the population counters; 'unrelated earlier work' is sampled by a fixed menu of interference, not enumerated",
        "rule": "G-epochs scenarios with the sequential executor, 1-20 (30) epochs, structural rates biased upwards; non-trivial = at least 5 epochs and the genomes grew (structural mutation and crossover took place); distinct by (constructor, epochs, size, program, seed, dump length)",
        "assumptions": ["the global math/rand source is seeded by the harness per run (go.mod go 1.23, so rand.Seed is effective; asserted at start-up)"],
        "expect_classes": {"rerun": ["second run with an options object that was loaded from a file", "second run with a new executor object for every turnover", "constructor:spawn", "constructor:file", "both runs spawn from one start genome object", "second run turned over by an executor object that served another population", "turnover repeated after a cancelled attempt", "constructor:random", "constructor:read", "constructor:reread", "fitness:genome", "genomes grew", "modular start genome", "large population", "second run with options copied from a used object", "add-link searches that run long", "second run with the options object of earlier work, settings overwritten in place", "generated unrelated scenario between the runs"]},
    },
}

# properties that the technique can not decide (none): id -> reason
NOT_APPLICABLE = {}
