"""Per-property configuration of the driver (test selector, sharding, evidence texts)."""

PROPS = {
    "C07": {
        "run": "^TestC07",
        "shards": 12,
        "rule": "pairs of strictly increasing innovation lists built from a pattern language (mixed / identical / prefix / "
                "interleaved / disjoint blocks / excess tail / single gene / gene-less) with independent mutation numbers and "
                "non-negative coefficient triples; a case is non-trivial when excess+disjoint > 0 and either a disjoint gene "
                "exists or no gene matches; distinct = distinct (len a, len b, E, D, M, pattern) tuples",
        "assumptions": [
            "oracle: set-based reference of the NEAT formula (excess = above the other list's maximum), relative tolerance 1e-9",
            "mutation numbers finite with magnitude <= 1e100 so that the sums do not overflow",
            "compatibility is reached through the tag-guarded forwarders of neat/genetics/verif_hooks.go",
        ],
        "technique": "property-based testing (rapid): generated innovation-list pairs against a set-based reference formula, plus symmetry/identity/method-agreement relations",
        "level_text": "Generated-input search: tens of thousands (quick) to millions (thorough) of list pairs covering every alignment pattern named in the property; "
                      "each compared with an independent reference of the formula under both methods. No counter-example = no violation among the generated classes, not a proof.",
        "level_note": "trusted: the reference formula in the harness (set based, 30 lines), Go float64 arithmetic, rapid's generators; tolerance 1e-9 relative",
        "expect_classes": {"lists": ["no matching gene", "excess and disjoint", "gene-less side", "different lengths with disjoint genes"]},
    },
}

# properties that the technique can not decide (none): id -> reason
NOT_APPLICABLE = {}
