package props

import (
	"fmt"
	"testing"

	"github.com/yaricom/goNEAT/v4/neat"
	"github.com/yaricom/goNEAT/v4/neat/genetics"
	"pgregory.net/rapid"
)

/* C01 - every genetic operator and epoch yields only well-formed genomes */

// (a) operator histories
func CheckC01History(c HistoryCase, rec *Rec) error {
	return runHistory(c, historyChecks{m1: true}, rec)
}

func TestC01History(t *testing.T) {
	runProp(t, "C01", "history", 1500, 30000, genHistory(pick(60, 150)), CheckC01History)
}

// (b)-(d) population constructors and epoch turnovers
func CheckC01Epochs(sc Scenario, rec *Rec) error {
	var anc IORoles
	hidden := 0
	return runScenario(sc, epochHooks{
		turnoverMustSucceed: true,
		built: func(pop *genetics.Population, _ *neat.Options) error {
			anc = ancestorsOf(pop)
			return checkAllWellFormed(pop, anc)
		},
		after: func(e int, pop *genetics.Population) error {
			if err := checkAllWellFormed(pop, anc); err != nil {
				return err
			}
			h, disabled, rec2 := 0, 0, 0
			for _, o := range pop.Organisms {
				for _, n := range o.Genotype.Nodes {
					if int(n.NeuronType) == roleHidden {
						h++
					}
				}
				for _, g := range o.Genotype.Genes {
					if !g.IsEnabled {
						disabled++
					}
					if g.Link.IsRecurrent {
						rec2++
					}
				}
			}
			if h > hidden {
				rec.Class("turnover that grew hidden nodes")
			}
			hidden = h
			if h > 0 || disabled > 0 || rec2 > 0 {
				rec.NonTrivial(hashOf(sc.Ctor, e, len(pop.Organisms), len(pop.Species), h, disabled, rec2))
			}
			if len(pop.Species) > 1 {
				rec.Class("turnover with several species")
			}
			return nil
		},
	}, rec)
}

func TestC01Epochs(t *testing.T) {
	runProp(t, "C01", "epochs", 250, 5000, genScenario(ScenarioCfg{MaxEpochs: pick(15, 40), Parallel: 1, Structural: true, Warm: true, Retry: true}), CheckC01Epochs)
}

// (e) modular genomes: duplication and expression only
type C01Modular struct {
	G GenomeSpec `json:"genome"`
}

func CheckC01Modular(c C01Modular, rec *Rec) error {
	g := c.G.Build()
	anc := IORolesOf(c.G)
	dup, err := g.VerifDuplicate(5)
	if err != nil {
		return fmt.Errorf("duplicate returned error: %v", err)
	}
	if err := WellFormed(dup, anc); err != nil {
		return fmt.Errorf("duplicate of a modular genome is not well-formed: %v", err)
	}
	for _, cg := range dup.ControlGenes {
		for _, l := range cg.ControlNode.Incoming {
			if dup.NodeWithId(l.InNode.Id) != l.InNode {
				return fmt.Errorf("module %d of the duplicate reads node %d which is not the duplicate's own node", cg.ControlNode.Id, l.InNode.Id)
			}
		}
		for _, l := range cg.ControlNode.Outgoing {
			if dup.NodeWithId(l.OutNode.Id) != l.OutNode {
				return fmt.Errorf("module %d of the duplicate drives node %d which is not the duplicate's own node", cg.ControlNode.Id, l.OutNode.Id)
			}
		}
	}
	if len(c.G.Modules) > 0 {
		rec.Class("modular")
		rec.NonTrivial(hashOf(len(c.G.Nodes), len(c.G.Genes), len(c.G.Modules)))
	}
	return nil
}

func TestC01Modular(t *testing.T) {
	gg := genGenomeSpec(GenomeCfg{Modules: true, MinGenes: 1, Big: true, ModLinkW: true, ModLinkTr: true})
	runProp(t, "C01", "modular", 1500, 30000, rapid.Map(gg, func(g GenomeSpec) C01Modular { return C01Modular{G: g} }), CheckC01Modular)
}

func init() {
	registerReplay("C01", "history", CheckC01History)
	registerReplay("C01", "epochs", CheckC01Epochs)
	registerReplay("C01", "modular", CheckC01Modular)
}
