package props

import (
	"fmt"
	"testing"

	"github.com/yaricom/goNEAT/v4/neat"
	"github.com/yaricom/goNEAT/v4/neat/genetics"
)

/* C02 - an epoch conserves population size and keeps species a partition */

func CheckC02(sc Scenario, rec *Rec) error {
	var tr *c02Tracker
	popSize := sc.Opts.PopSize
	return runScenario(sc, epochHooks{
		turnoverMustSucceed: true,
		built: func(pop *genetics.Population, _ *neat.Options) error {
			tr = newC02Tracker(pop)
			if err := checkPartition(pop, popSize); err != nil {
				return err
			}
			for _, sp := range pop.Species {
				if sp.Age != 1 {
					return fmt.Errorf("species %d of a freshly constructed population has age %d", sp.Id, sp.Age)
				}
			}
			return nil
		},
		before: func(e int, pop *genetics.Population) error {
			tr.snapshot(pop)
			if len(pop.Species) >= 2 {
				rec.Class("turnover starting with several species")
			}
			if sc.Fit.Scale >= 1e300 {
				rec.Class("fitness values whose sum overflows")
			}
			if sc.Fit.Scale <= 1e-300 {
				rec.Class("fitness values at the bottom of the float64 range")
			}
			old := 0
			for _, sp := range pop.Species {
				if sp.Age > 5 {
					old++
				}
			}
			if sc.Opts.BabiesStolen > 0 && old > 0 {
				rec.Class("turnover where babies can be stolen")
			}
			if len(pop.Species) >= 2 || (sc.Opts.BabiesStolen > 0 && old > 0) || sc.Fit.Kind == "zero" {
				rec.NonTrivial(hashOf(e, len(pop.Species), popSize, sc.Fit.Kind, sc.Opts.BabiesStolen, sc.Opts.Parallel, old))
			}
			switch n := len(pop.Species); {
			case n == 1:
				rec.Class("species:1")
			case n <= 5:
				rec.Class("species:2-5")
			default:
				rec.Class("species:6+")
			}
			return nil
		},
		after: func(e int, pop *genetics.Population) error {
			return tr.check(pop, popSize, e == 0, rec)
		},
	}, rec)
}

func TestC02(t *testing.T) {
	runProp(t, "C02", "epochs", 500, 10000, genScenario(ScenarioCfg{MaxEpochs: pick(25, 60), Parallel: 1, HugeFitness: true, DupIds: true, Warm: true, Retry: true, WideStolen: true, FitRegimes: true, BigPops: true}), CheckC02)
}

func init() { registerReplay("C02", "epochs", CheckC02) }
