package props

import (
	"errors"
	"fmt"
	"testing"

	"github.com/yaricom/goNEAT/v4/neat"
	"github.com/yaricom/goNEAT/v4/neat/genetics"
)

/* C03 - an innovation number denotes one connection for the life of a population */

// splitClause: two organisms that split the same gene in the same generation must have received the same node id.
func splitClause(pop *genetics.Population, prevInnov int64, prevNode int, rec *Rec) error {
	type splitKey struct {
		a, b     int
		rec      bool
		oldInnov int64
	}
	nodeOf := map[splitKey]int{}
	for i, o := range pop.Organisms {
		g := o.Genotype
		for _, n := range g.Nodes {
			if n.Id <= prevNode || int(n.NeuronType) != roleHidden {
				continue
			}
			var in, out *genetics.Gene
			for _, gn := range g.Genes {
				if gn.InnovationNum <= prevInnov {
					continue
				}
				if gn.Link.OutNode.Id == n.Id && gn.Link.InNode.Id != n.Id {
					in = gn
				}
				if gn.Link.InNode.Id == n.Id && gn.Link.OutNode.Id != n.Id {
					out = gn
				}
			}
			if in == nil || out == nil {
				continue // not the result of a plain split (nothing to compare)
			}
			for _, old := range g.Genes {
				if old.Link.InNode.Id == in.Link.InNode.Id && old.Link.OutNode.Id == out.Link.OutNode.Id &&
					old.Link.IsRecurrent == in.Link.IsRecurrent && old.InnovationNum <= prevInnov {
					k := splitKey{in.Link.InNode.Id, out.Link.OutNode.Id, in.Link.IsRecurrent, old.InnovationNum}
					if other, seen := nodeOf[k]; seen && other != n.Id {
						return fmt.Errorf("the split of gene %d (%d->%d) received the node ids %d and %d in the same generation (organism %d)",
							old.InnovationNum, k.a, k.b, other, n.Id, i)
					} else if seen {
						rec.Class("same split performed by several organisms of one generation")
					}
					nodeOf[k] = n.Id
				}
			}
		}
	}
	return nil
}

func CheckC03(sc Scenario, rec *Rec) error {
	led := newLedger()
	linkNumbers := map[[3]int]int64{}
	return runScenario(sc, epochHooks{
		built: func(pop *genetics.Population, _ *neat.Options) error {
			if n := len(pop.Innovations()); n != 0 {
				return fmt.Errorf("a freshly constructed population records %d innovations", n)
			}
			return led.update(pop, false, rec)
		},
		after: func(e int, pop *genetics.Population) error {
			prevInnov, prevNode := led.maxInnov, led.maxNode
			if err := led.update(pop, true, rec); err != nil {
				var two *sameLinkTwoNumbers
				if errors.As(err, &two) && sc.Opts.Parallel {
					rec.Class("parallel executor: same link under two numbers (only asserted for the sequential executor)")
				} else {
					return err
				}
			}
			if !sc.Opts.Parallel {
				if err := splitClause(pop, prevInnov, prevNode, rec); err != nil {
					return err
				}
			}
			if n := len(pop.Innovations()); n != 0 {
				return fmt.Errorf("%d innovations are still recorded after the generation ended", n)
			}
			for _, o := range pop.Organisms {
				if len(o.Genotype.ControlGenes) > 0 {
					rec.Class("population with modular genomes")
					break
				}
			}
			grew := led.maxInnov > prevInnov
			pairs := map[[2]int]int{}
			for _, o := range pop.Organisms {
				for _, g := range o.Genotype.Genes {
					k := [3]int{g.Link.InNode.Id, g.Link.OutNode.Id, b2i(g.Link.IsRecurrent)}
					if old, ok := linkNumbers[k]; ok && old != g.InnovationNum {
						rec.Class("same link under different numbers in different generations")
					}
					linkNumbers[k] = g.InnovationNum
					pairs[[2]int{k[0], k[1]}] |= 1 << k[2]
				}
			}
			both := false
			for _, m := range pairs {
				both = both || m == 3
			}
			if both {
				rec.Class("recurrent and non-recurrent link on the same endpoints")
			}
			if grew {
				rec.Class("turnover issuing new innovation numbers")
				rec.NonTrivial(hashOf(e, led.maxInnov, led.maxNode, len(pop.Species), both))
			}
			return nil
		},
	}, rec)
}

func TestC03(t *testing.T) {
	runProp(t, "C03", "epochs", 400, 8000, genScenario(ScenarioCfg{MaxEpochs: pick(20, 50), Structural: true, Parallel: 1, ModularStart: true}), CheckC03)
}

// operator histories: the harness controls the generation boundary, so identical innovations within a generation and
// re-invention after the record was forgotten are frequent
func CheckC03History(c HistoryCase, rec *Rec) error {
	return runHistory(c, historyChecks{c03: true}, rec)
}

func TestC03History(t *testing.T) {
	runProp(t, "C03", "history", 2000, 30000, genHistory(pick(60, 150)), CheckC03History)
}

func init() {
	registerReplay("C03", "epochs", CheckC03)
	registerReplay("C03", "history", CheckC03History)
}
