package props

import (
	"errors"
	"fmt"
	"testing"

	"github.com/yaricom/goNEAT/v4/neat"
	"github.com/yaricom/goNEAT/v4/neat/genetics"
	"pgregory.net/rapid"
)

/* C03 - an innovation number denotes one connection for the life of a population */

// splitClause: two organisms that split the same gene in the same generation must have received the same node id.
func splitClause(pop *genetics.Population, prevInnov int64, prevNode int, rec *Rec) error {
	type splitKey struct {
		a, b     int
		rec      bool
		oldInnov int64
	}
	nodeOf := map[splitKey]int{}
	for i, o := range pop.Organisms {
		g := o.Genotype
		for _, n := range g.Nodes {
			if n.Id <= prevNode || int(n.NeuronType) != roleHidden {
				continue
			}
			var in, out *genetics.Gene
			for _, gn := range g.Genes {
				if gn.InnovationNum <= prevInnov {
					continue
				}
				if gn.Link.OutNode.Id == n.Id && gn.Link.InNode.Id != n.Id {
					in = gn
				}
				if gn.Link.InNode.Id == n.Id && gn.Link.OutNode.Id != n.Id {
					out = gn
				}
			}
			if in == nil || out == nil {
				continue // not the result of a plain split (nothing to compare)
			}
			for _, old := range g.Genes {
				if old.Link.InNode.Id == in.Link.InNode.Id && old.Link.OutNode.Id == out.Link.OutNode.Id &&
					old.Link.IsRecurrent == in.Link.IsRecurrent && old.InnovationNum <= prevInnov {
					k := splitKey{in.Link.InNode.Id, out.Link.OutNode.Id, in.Link.IsRecurrent, old.InnovationNum}
					if other, seen := nodeOf[k]; seen && other != n.Id {
						return fmt.Errorf("the split of gene %d (%d->%d) received the node ids %d and %d in the same generation (organism %d)",
							old.InnovationNum, k.a, k.b, other, n.Id, i)
					} else if seen {
						rec.Class("same split performed by several organisms of one generation")
					}
					nodeOf[k] = n.Id
				}
			}
		}
	}
	return nil
}

func CheckC03(sc Scenario, rec *Rec) error {
	led := newLedger()
	linkNumbers := map[[3]int]int64{}
	return runScenario(sc, epochHooks{
		built: func(pop *genetics.Population, _ *neat.Options) error {
			if n := len(pop.Innovations()); n != 0 {
				return fmt.Errorf("a freshly constructed population records %d innovations", n)
			}
			return led.update(pop, false, rec)
		},
		after: func(e int, pop *genetics.Population) error {
			prevInnov, prevNode := led.maxInnov, led.maxNode
			if err := led.update(pop, true, rec); err != nil {
				var two *sameLinkTwoNumbers
				if errors.As(err, &two) && sc.Opts.Parallel {
					rec.Class("parallel executor: same link under two numbers (only asserted for the sequential executor)")
				} else {
					return err
				}
			}
			if !sc.Opts.Parallel {
				if err := splitClause(pop, prevInnov, prevNode, rec); err != nil {
					return err
				}
			}
			if n := len(pop.Innovations()); n != 0 {
				return fmt.Errorf("%d innovations are still recorded after the generation ended", n)
			}
			for _, o := range pop.Organisms {
				if len(o.Genotype.ControlGenes) > 0 {
					rec.Class("population with modular genomes")
					break
				}
			}
			grew := led.maxInnov > prevInnov
			pairs := map[[2]int]int{}
			for _, o := range pop.Organisms {
				for _, g := range o.Genotype.Genes {
					k := [3]int{g.Link.InNode.Id, g.Link.OutNode.Id, b2i(g.Link.IsRecurrent)}
					if old, ok := linkNumbers[k]; ok && old != g.InnovationNum {
						rec.Class("same link under different numbers in different generations")
					}
					linkNumbers[k] = g.InnovationNum
					pairs[[2]int{k[0], k[1]}] |= 1 << k[2]
				}
			}
			both := false
			for _, m := range pairs {
				both = both || m == 3
			}
			if both {
				rec.Class("recurrent and non-recurrent link on the same endpoints")
			}
			if grew {
				rec.Class("turnover issuing new innovation numbers")
				rec.NonTrivial(hashOf(e, led.maxInnov, led.maxNode, len(pop.Species), both))
			}
			return nil
		},
	}, rec)
}

func TestC03(t *testing.T) {
	runProp(t, "C03", "epochs", 400, 8000, genScenario(ScenarioCfg{MaxEpochs: pick(20, 50), Structural: true, Parallel: 1, ModularStart: true, Warm: true, Retry: true}), CheckC03)
}

// operator histories: the harness controls the generation boundary, so identical innovations within a generation and
// re-invention after the record was forgotten are frequent
func CheckC03History(c HistoryCase, rec *Rec) error {
	return runHistory(c, historyChecks{c03: true}, rec)
}

func TestC03History(t *testing.T) {
	runProp(t, "C03", "history", 2000, 30000, genHistory(pick(60, 150)), CheckC03History)
}

func init() {
	registerReplay("C03", "epochs", CheckC03)
	registerReplay("C03", "history", CheckC03History)
}

/* very many innovations in one generation: a start genome with one disconnected sensor and 900-1500 non-sensor nodes; the
   connect-sensors mutation of the first offspring records one new link per non-sensor node, the same mutation of the
   following offspring must find every one of them in the record again */

type C03Wide struct {
	Neurons int   `json:"neurons"`
	Members int   `json:"members"`
	Seed    int64 `json:"seed"`
}

func GenC03Wide() *rapid.Generator[C03Wide] {
	return rapid.Custom(func(t *rapid.T) C03Wide {
		return C03Wide{Neurons: rapid.IntRange(900, 1500).Draw(t, "neurons"), Members: rapid.IntRange(2, 3).Draw(t, "members"),
			Seed: int64(rapid.IntRange(0, 1<<30).Draw(t, "seed"))}
	})
}

func CheckC03Wide(c C03Wide, rec *Rec) error {
	s := GenomeSpec{Id: 1, Traits: []TraitSpec{{Id: 1, Params: make([]float64, neat.NumTraitParams)}}}
	s.Nodes = append(s.Nodes, NodeSpec{Id: 1, Role: roleInput, Act: 17}, NodeSpec{Id: 2, Role: roleInput, Act: 17})
	for i := 0; i < c.Neurons; i++ {
		role := roleOutput
		if i%3 == 2 {
			role = roleHidden
		}
		s.Nodes = append(s.Nodes, NodeSpec{Id: 3 + i, Role: role, Act: 4})
		s.Genes = append(s.Genes, GeneSpec{In: 1, Out: 3 + i, W: 0.5, Innov: int64(1 + i), Mut: 0.5, En: true, Trait: 1})
	}
	opts := defaultOpts().Build()
	pop := populationFor(s)
	seedLibrary(c.Seed)
	var members []*genetics.Genome
	for m := 0; m < c.Members; m++ {
		g := s.Build()
		g.Id = m
		ok, err := g.VerifMutateConnectSensors(pop, opts)
		if err != nil || !ok {
			return fmt.Errorf("connect-sensors on member %d returned (%v, %v)", m, ok, err)
		}
		if len(g.Genes) != 2*c.Neurons {
			return fmt.Errorf("member %d has %d genes after connect-sensors, %d expected", m, len(g.Genes), 2*c.Neurons)
		}
		members = append(members, g)
	}
	if err := oneMeaning(members); err != nil {
		return err
	}
	numbers := map[[2]int]int64{}
	for mi, g := range members {
		for _, gn := range g.Genes {
			k := [2]int{gn.Link.InNode.Id, gn.Link.OutNode.Id}
			if old, ok := numbers[k]; ok && old != gn.InnovationNum {
				return fmt.Errorf("the new link %d->%d received the innovation numbers %d and %d in one generation (member %d; %d innovations recorded)",
					k[0], k[1], old, gn.InnovationNum, mi, len(pop.Innovations()))
			}
			numbers[k] = gn.InnovationNum
		}
	}
	if n := len(pop.Innovations()); n != c.Neurons {
		return fmt.Errorf("%d innovations recorded for %d new links", n, c.Neurons)
	}
	if c.Neurons > 1024 {
		rec.Class("more than 1024 innovations in one generation")
	}
	rec.NonTrivial(hashOf(c.Neurons, c.Members))
	return nil
}

func TestC03Wide(t *testing.T) {
	runProp(t, "C03", "wide", 4, 40, GenC03Wide(), CheckC03Wide)
}

func init() { registerReplay("C03", "wide", CheckC03Wide) }

/* C03 (forget): "the record of innovations is forgotten when the generation ends", observed through behaviour instead of through
   the accessor. After some turnovers a copy of one organism's genome is split by an add-node mutation against the population's
   record (the innovation is recorded); the population is turned over once by the real executor; then another copy of the same
   genome receives the same mutation (same seed, so the same gene is split). The second split happens in a later generation:
   it must get a new node id and new innovation numbers, whatever the library keeps besides the list that Innovations() shows. */
func CheckC03Forget(sc Scenario, rec *Rec) error {
	opts := sc.Opts.Build()
	pop, err := buildPopulation(sc, opts)
	if err == errSkipScenario {
		rec.Class("skipped: constructor outside the domain (gene-less random genome / failing turnover before the checkpoint)")
		return nil
	}
	if err != nil {
		return err
	}
	ctx := opts.NeatContext()
	exec := newExecutor(opts)
	turnover := func(e int) error {
		n := len(pop.Organisms)
		for i, o := range pop.Organisms {
			o.Fitness = fitnessOf(sc.Fit, e, i, n, o.Genotype)
		}
		return exec.NextEpoch(ctx, e, pop)
	}
	for e := 0; e < sc.Epochs; e++ {
		if err := turnover(e); err != nil {
			rec.Class("history ended by a failing turnover (outside this property, see C02)")
			return nil
		}
	}
	orig := pop.Organisms[int(sc.Seed)%len(pop.Organisms)].Genotype
	split := func(id int) (ok bool, node int, numbers []int64, err error) {
		dup, err := orig.VerifDuplicate(id)
		if err != nil {
			return false, 0, nil, fmt.Errorf("duplicate returned error %v", err)
		}
		old := map[int64]bool{}
		for _, g := range dup.Genes {
			old[g.InnovationNum] = true
		}
		nodes := map[int]bool{}
		for _, n := range dup.Nodes {
			nodes[n.Id] = true
		}
		seedLibrary(sc.Seed + 5)
		ok, err = dup.VerifMutateAddNode(pop, pop, opts)
		if err != nil || !ok {
			return false, 0, nil, err
		}
		for _, n := range dup.Nodes {
			if !nodes[n.Id] {
				node = n.Id
			}
		}
		for _, g := range dup.Genes {
			if !old[g.InnovationNum] {
				numbers = append(numbers, g.InnovationNum)
			}
		}
		return true, node, numbers, nil
	}
	ok1, node1, nums1, err := split(100001)
	if err != nil {
		return fmt.Errorf("add-node on a copy of an organism's genome returned error %v", err)
	}
	if !ok1 {
		rec.Class("probe mutation did not succeed")
		return nil
	}
	if len(pop.Innovations()) == 0 {
		return fmt.Errorf("a successful add-node mutation (node %d, genes %v) left no innovation on record", node1, nums1)
	}
	if err := turnover(sc.Epochs); err != nil {
		rec.Class("history ended by a failing turnover (outside this property, see C02)")
		return nil
	}
	ok2, node2, nums2, err := split(100002)
	if err != nil {
		return fmt.Errorf("add-node on a copy of an organism's genome returned error %v", err)
	}
	if !ok2 {
		rec.Class("probe mutation did not succeed")
		return nil
	}
	rec.Class("same split repeated one generation later")
	rec.NonTrivial(hashOf(sc.Epochs, len(pop.Organisms), node1, node2, sc.Opts.Parallel))
	maxNum1 := int64(0)
	for _, n := range nums1 {
		if n > maxNum1 {
			maxNum1 = n
		}
	}
	if node2 <= node1 {
		return fmt.Errorf("a gene was split in one generation (new node %d, genes %v) and the same gene of the same genome was split again one generation later: the second split received the node id %d, which is not a new one - the innovation of the earlier generation was not forgotten", node1, nums1, node2)
	}
	for _, n := range nums2 {
		if n <= maxNum1 {
			return fmt.Errorf("a gene was split in one generation (new node %d, genes %v) and the same gene of the same genome was split again one generation later: the second split received the innovation numbers %v, not new ones - the innovation of the earlier generation was not forgotten", node1, nums1, nums2)
		}
	}
	return nil
}

func TestC03Forget(t *testing.T) {
	runProp(t, "C03", "forget", 300, 6000, genScenario(ScenarioCfg{MaxEpochs: 6, Structural: true, Parallel: 1, NoSwitch: true, MaxPop: 20}), CheckC03Forget)
}

func init() { registerReplay("C03", "forget", CheckC03Forget) }
