package props

import (
	"fmt"
	"math"
	"testing"

	"pgregory.net/rapid"
)

/* C04 - crossover children inherit genes only as NEAT's alignment rules allow */

type C04Case struct {
	P1     GenomeSpec `json:"parent1"`
	P2     GenomeSpec `json:"parent2"`
	Method string     `json:"method"`
	F1     float64    `json:"fitness1"`
	F2     float64    `json:"fitness2"`
	Seed   int64      `json:"seed"`
}

func GenC04() *rapid.Generator[C04Case] {
	fam := genFamily(2, pick(12, 24))
	bigFam := genFamily(2, 150)
	return rapid.Custom(func(t *rapid.T) C04Case {
		f := fam.Draw(t, "family")
		if rapid.IntRange(0, 59).Draw(t, "big lineage") == 31 {
			f = bigFam.Draw(t, "big family") // genomes of up to a few hundred genes
		}
		if rapid.IntRange(0, 9).Draw(t, "large innovation numbers") == 0 {
			f = enlargeFamilyInnovations(t, f)
		}
		c := C04Case{P1: f[0], P2: f[1], Method: rapid.SampledFrom(mateKinds).Draw(t, "method"), Seed: int64(rapid.IntRange(0, 1<<30).Draw(t, "seed"))}
		if rapid.IntRange(0, 9).Draw(t, "identical parents") == 0 {
			c.P2 = c.P1
			c.P2.Id = 2
		}
		c.F1 = rapid.SampledFrom([]float64{0, 0.5, 1, 2.25, 7}).Draw(t, "f1")
		c.F2 = rapid.SampledFrom([]float64{0, 0.5, 1, 2.25, 7}).Draw(t, "f2")
		switch rapid.IntRange(0, 5).Draw(t, "tie") {
		case 0, 1:
			c.F2 = c.F1
		case 2: // almost a tie: the fitter parent is still the fitter one
			c.F2 = math.Nextafter(c.F1, 100)
		case 3:
			c.F2 = c.F1 + 1e-12
		}
		if c.F1 != c.F2 && rapid.Bool().Draw(t, "other way round") {
			c.F1, c.F2 = c.F2, c.F1 // ... whichever of the two it is
		}
		if rapid.IntRange(0, 7).Draw(t, "tiny fitness scale") == 0 {
			c.F1, c.F2 = c.F1*1e-13, c.F2*1e-13
		}
		return c
	})
}

func CheckC04(c C04Case, rec *Rec) error {
	p1, p2 := c.P1.Build(), c.P2.Build()
	seedLibrary(c.Seed)
	child, err := applyMate(p1, p2, OpSpec{Kind: c.Method, F1: c.F1, F2: c.F2}, 77)
	if err != nil {
		return fmt.Errorf("%s returned error: %v", c.Method, err)
	}
	if d := DiffSpec(c.P1, Snapshot(p1)); d != "" {
		return fmt.Errorf("%s modified the first parent: %s", c.Method, d)
	}
	if d := DiffSpec(c.P2, Snapshot(p2)); d != "" {
		return fmt.Errorf("%s modified the second parent: %s", c.Method, d)
	}
	ch := Snapshot(child)
	return checkCrossoverChild(c.P1, c.P2, ch, c.Method, c.F1, c.F2, rec)
}

// checkCrossoverChild is the inheritance relation of C04 between two parent snapshots and the child's snapshot.
func checkCrossoverChild(P1, P2, ch GenomeSpec, method string, f1, f2 float64, rec *Rec) error {
	g1, g2 := map[int64]GeneSpec{}, map[int64]GeneSpec{}
	for _, g := range P1.Genes {
		g1[g.Innov] = g
	}
	for _, g := range P2.Genes {
		g2[g.Innov] = g
	}
	multipoint := method == opMateMultipoint || method == opMateMultiAvg
	// which parent may donate genes that only it carries (0 = undetermined by the statement)
	donor := 0
	switch {
	case f1 > f2:
		donor = 1
	case f2 > f1:
		donor = 2
	case len(P1.Genes) < len(P2.Genes):
		donor = 1
	case len(P2.Genes) < len(P1.Genes):
		donor = 2
	}
	rec.Class("method:" + method)
	differ := len(g1) != len(g2)
	for inn := range g1 {
		if _, ok := g2[inn]; !ok {
			differ = true
		}
	}
	if f1 != f2 && math.Abs(f1-f2) < 1e-9 {
		rec.Class("fitness values differ by less than 1e-9")
	}
	if f1 == f2 {
		rec.Class(map[int]string{0: "tie with equal gene counts", 1: "tie, first parent smaller", 2: "tie, second parent smaller"}[donor])
	}
	if !differ {
		rec.Class("parents carry the same genes")
	}

	seen := map[int64]bool{}
	touched := map[int]bool{}
	from1, from2 := 0, 0
	for i, g := range ch.Genes {
		if seen[g.Innov] {
			return fmt.Errorf("%s: innovation %d occurs twice in the child", method, g.Innov)
		}
		seen[g.Innov] = true
		a, in1 := g1[g.Innov]
		b, in2 := g2[g.Innov]
		if !in1 && !in2 {
			return fmt.Errorf("%s: child gene %d (innovation %d) is in neither parent", method, i, g.Innov)
		}
		src := a
		if !in1 {
			src = b
		}
		if g.In != src.In || g.Out != src.Out || g.Rec != src.Rec {
			return fmt.Errorf("%s: child gene %d is %d->%d rec=%v, the parents' gene is %d->%d rec=%v", method, g.Innov, g.In, g.Out, g.Rec, src.In, src.Out, src.Rec)
		}
		touched[g.In], touched[g.Out] = true, true
		switch {
		case in1 && in2:
			mean := (a.W + b.W) / 2
			ok := false
			switch method {
			case opMateMultipoint:
				ok = g.W == a.W || g.W == b.W
			case opMateMultiAvg:
				ok = g.W == mean
			default:
				ok = g.W == a.W || g.W == b.W || g.W == mean
			}
			if !ok {
				return fmt.Errorf("%s: matching gene %d has weight %v, parents have %v and %v", method, g.Innov, g.W, a.W, b.W)
			}
			if a.En && b.En && !g.En {
				return fmt.Errorf("%s: gene %d is enabled in both parents but disabled in the child", method, g.Innov)
			}
			if a.En != b.En {
				rec.Class("matching gene disabled in exactly one parent")
			}
			if !a.En && !b.En {
				rec.Class("matching gene disabled in both parents")
				if g.En {
					// enabled in no carrying parent: the statement only fixes "enabled in every parent => enabled";
					// nothing is asserted here
					rec.Class("gene disabled in both parents came out enabled (not asserted)")
				}
			}
		default:
			if g.W != src.W {
				return fmt.Errorf("%s: gene %d carried by one parent has weight %v there, %v in the child", method, g.Innov, src.W, g.W)
			}
			if g.En != src.En {
				return fmt.Errorf("%s: gene %d is carried by one parent only with enabled=%v, the child has enabled=%v", method, g.Innov, src.En, g.En)
			}
			if !src.En {
				rec.Class("single-parent gene that is disabled")
			}
			if in1 {
				from1++
			} else {
				from2++
			}
		}
	}
	if multipoint {
		for inn := range g1 {
			if _, both := g2[inn]; both && !seen[inn] {
				return fmt.Errorf("%s: innovation %d is present in both parents but missing in the child", method, inn)
			}
		}
		switch donor {
		case 1:
			if from2 > 0 {
				return fmt.Errorf("%s: %d genes carried only by the less fit second parent were inherited (fitness %v vs %v, %d vs %d genes)", method, from2, f1, f2, len(P1.Genes), len(P2.Genes))
			}
		case 2:
			if from1 > 0 {
				return fmt.Errorf("%s: %d genes carried only by the less fit first parent were inherited (fitness %v vs %v, %d vs %d genes)", method, from1, f1, f2, len(P1.Genes), len(P2.Genes))
			}
		default:
			if from1 > 0 && from2 > 0 {
				return fmt.Errorf("%s: on a full tie single-parent genes came from both parents (%d and %d)", method, from1, from2)
			}
		}
		if from1+from2 > 0 {
			rec.Class("single-parent genes inherited")
		}
	}
	// nodes: all input/bias/output nodes plus exactly the nodes touched by the child's genes
	roles := map[int]int{}
	for _, n := range P1.Nodes {
		roles[n.Id] = n.Role
	}
	for _, n := range P2.Nodes {
		if r, ok := roles[n.Id]; ok && r != n.Role {
			return fmt.Errorf("harness: parents disagree on the role of node %d", n.Id)
		}
		roles[n.Id] = n.Role
	}
	want := map[int]bool{}
	for id, r := range roles {
		if r != roleHidden || touched[id] {
			want[id] = true
		}
	}
	for id := range touched {
		want[id] = true
	}
	got := map[int]bool{}
	for _, n := range ch.Nodes {
		if got[n.Id] {
			return fmt.Errorf("%s: node %d occurs twice in the child", method, n.Id)
		}
		got[n.Id] = true
		if !want[n.Id] {
			return fmt.Errorf("%s: child has node %d which is neither an input/bias/output node nor touched by its genes", method, n.Id)
		}
		if r, ok := roles[n.Id]; !ok || r != n.Role {
			return fmt.Errorf("%s: child node %d has role %d, parents' node has %d", method, n.Id, n.Role, r)
		}
	}
	for id := range want {
		if !got[id] {
			return fmt.Errorf("%s: child lacks node %d (role %d)", method, id, roles[id])
		}
	}
	// traits: the parents' number, averaged parameters
	if len(ch.Traits) != len(P1.Traits) {
		return fmt.Errorf("%s: child has %d traits, parents have %d", method, len(ch.Traits), len(P1.Traits))
	}
	for i, tr := range ch.Traits {
		if len(tr.Params) != len(P1.Traits[i].Params) {
			return fmt.Errorf("%s: trait %d of the child has %d parameters, the parents' traits have %d", method, i, len(tr.Params), len(P1.Traits[i].Params))
		}
		for j := range tr.Params {
			a, b := P1.Traits[i].Params[j], P2.Traits[i].Params[j]
			// the mean, computed either way (the sum of two values near the largest float64 overflows, the sum of the halves does not)
			if mean := (a + b) / 2; tr.Params[j] != mean && tr.Params[j] != a/2+b/2 {
				return fmt.Errorf("%s: trait %d param %d is %v, the mean of the parents' is %v", method, i, j, tr.Params[j], mean)
			}
		}
	}
	if differ {
		rec.NonTrivial(hashOf(method, len(P1.Genes), len(P2.Genes), len(ch.Genes), donor, from1, from2))
	}
	return nil
}

func TestC04(t *testing.T) {
	runProp(t, "C04", "family", 12000, 250000, GenC04(), CheckC04)
}

// parents reached by operator histories (mutated, re-enabled, crossed over before) instead of constructed ones
func CheckC04History(c HistoryCase, rec *Rec) error {
	return runHistory(c, historyChecks{c04: true}, rec)
}

func TestC04History(t *testing.T) {
	runProp(t, "C04", "history", 1500, 30000, genHistory(pick(60, 150)), CheckC04History)
}

func init() {
	registerReplay("C04", "family", CheckC04)
	registerReplay("C04", "history", CheckC04History)
}
