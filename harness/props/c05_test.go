package props

import (
	"fmt"
	"testing"

	"pgregory.net/rapid"
)

/* C05 - structural and parametric mutations change exactly what they document */

func geneIndex(s GenomeSpec) map[int64]GeneSpec {
	m := map[int64]GeneSpec{}
	for _, g := range s.Genes {
		m[g.Innov] = g
	}
	return m
}

func nodeIndex(s GenomeSpec) map[int]NodeSpec {
	m := map[int]NodeSpec{}
	for _, n := range s.Nodes {
		m[n.Id] = n
	}
	return m
}

func traitsEqual(a, b GenomeSpec) bool {
	if len(a.Traits) != len(b.Traits) {
		return false
	}
	for i := range a.Traits {
		if a.Traits[i].Id != b.Traits[i].Id || !floatsEq(a.Traits[i].Params, b.Traits[i].Params) {
			return false
		}
	}
	return true
}

// structureUnchanged: node ids and roles, gene endpoints, recurrence flags, innovation numbers and their order.
func structureUnchanged(before, after GenomeSpec) error {
	if len(before.Nodes) != len(after.Nodes) {
		return fmt.Errorf("the node set changed (%d -> %d nodes)", len(before.Nodes), len(after.Nodes))
	}
	for i := range before.Nodes {
		if before.Nodes[i].Id != after.Nodes[i].Id || before.Nodes[i].Role != after.Nodes[i].Role {
			return fmt.Errorf("node %d changed from (id %d, role %d) to (id %d, role %d)", i, before.Nodes[i].Id, before.Nodes[i].Role, after.Nodes[i].Id, after.Nodes[i].Role)
		}
	}
	if len(before.Genes) != len(after.Genes) {
		return fmt.Errorf("the number of genes changed (%d -> %d)", len(before.Genes), len(after.Genes))
	}
	for i := range before.Genes {
		b, a := before.Genes[i], after.Genes[i]
		if b.In != a.In || b.Out != a.Out || b.Rec != a.Rec || b.Innov != a.Innov {
			return fmt.Errorf("gene %d changed from %d->%d rec=%v innovation %d to %d->%d rec=%v innovation %d", i, b.In, b.Out, b.Rec, b.Innov, a.In, a.Out, a.Rec, a.Innov)
		}
	}
	return nil
}

// lastEnabledKept: every node that had an enabled outgoing gene and lost one still has an enabled outgoing gene.
func lastEnabledKept(before, after GenomeSpec) error {
	enabledOut := map[int]int{}
	for _, g := range after.Genes {
		if g.En {
			enabledOut[g.In]++
		}
	}
	for i, b := range before.Genes {
		if b.En && !after.Genes[i].En && enabledOut[b.In] == 0 {
			return fmt.Errorf("gene %d (%d->%d) was disabled although it was the last enabled gene leaving node %d", b.Innov, b.In, b.Out, b.In)
		}
	}
	return nil
}

func checkMutation(before, after GenomeSpec, op OpSpec, ok, hadRecord bool, rec *Rec) error {
	bGenes, aGenes := geneIndex(before), geneIndex(after)
	bNodes := nodeIndex(before)
	var newGenes []GeneSpec
	var changed []int64
	for _, g := range after.Genes {
		if old, had := bGenes[g.Innov]; !had {
			newGenes = append(newGenes, g)
		} else if old != g {
			changed = append(changed, g.Innov)
		}
	}
	removed := 0
	for inn := range bGenes {
		if _, still := aGenes[inn]; !still {
			removed++
		}
	}
	var newNodes []NodeSpec
	nodesChanged := false
	for _, n := range after.Nodes {
		if old, had := bNodes[n.Id]; !had {
			newNodes = append(newNodes, n)
		} else if old != n {
			nodesChanged = true
		}
	}
	disabledBefore, recurrentBefore, biasGenes := 0, 0, 0
	for _, g := range before.Genes {
		if !g.En {
			disabledBefore++
		}
		if g.Rec {
			recurrentBefore++
		}
		if bNodes[g.In].Role == roleBias {
			biasGenes++
		}
	}
	shape := hashOf(op.Kind, ok, len(before.Nodes), len(before.Genes), disabledBefore, recurrentBefore, len(newGenes), len(changed))

	switch op.Kind {
	case opAddNode:
		if !ok {
			if DiffSpec(before, after) != "" {
				rec.Class("unsuccessful add-node changed the genome (outside the statement, not asserted)")
			}
			return nil
		}
		if removed != 0 || nodesChanged || !traitsEqual(before, after) || len(after.Nodes) != len(before.Nodes)+1 {
			return fmt.Errorf("add-node changed more than it documents (removed genes %d, nodes changed %v, %d -> %d nodes)", removed, nodesChanged, len(before.Nodes), len(after.Nodes))
		}
		if len(newNodes) != 1 || newNodes[0].Role != roleHidden {
			return fmt.Errorf("add-node must add exactly one new hidden node, added %+v", newNodes)
		}
		n := newNodes[0].Id
		if len(newGenes) != 2 {
			return fmt.Errorf("add-node must add exactly two genes, added %d", len(newGenes))
		}
		if len(changed) != 1 {
			return fmt.Errorf("add-node must change exactly one old gene, changed %v", changed)
		}
		old, now := bGenes[changed[0]], aGenes[changed[0]]
		wantNow := old
		wantNow.En = false
		if !old.En || now != wantNow {
			return fmt.Errorf("add-node must only disable one previously enabled gene: %+v became %+v", old, now)
		}
		var in, out *GeneSpec
		for i := range newGenes {
			g := &newGenes[i]
			if g.Out == n && g.In == old.In {
				in = g
			} else if g.In == n && g.Out == old.Out {
				out = g
			}
		}
		if in == nil || out == nil {
			return fmt.Errorf("the two new genes %+v do not lead from %d into the new node %d and from it to %d", newGenes, old.In, n, old.Out)
		}
		if !in.En || !out.En {
			return fmt.Errorf("the new genes must be enabled: %+v", newGenes)
		}
		if in.W != 1 || in.Rec != old.Rec {
			return fmt.Errorf("gene %d->%d must have weight 1 and the recurrence flag %v of the split gene, has weight %v flag %v", in.In, in.Out, old.Rec, in.W, in.Rec)
		}
		if out.W != old.W {
			return fmt.Errorf("gene %d->%d must carry the old weight %v, has %v", out.In, out.Out, old.W, out.W)
		}
		if old.Rec {
			rec.Class("split of a recurrent gene")
		}
		if hadRecord {
			rec.Class("add-node with a non-empty innovation record")
		}
		if in.Innov < maxInnov(before) {
			rec.Class("add-node reused a recorded innovation")
		}
		rec.NonTrivial(shape)
	case opAddLink:
		if !ok {
			if DiffSpec(before, after) != "" {
				rec.Class("unsuccessful add-link changed the genome (outside the statement, not asserted)")
			}
			return nil
		}
		if removed != 0 || nodesChanged || len(newNodes) != 0 || len(changed) != 0 || !traitsEqual(before, after) {
			return fmt.Errorf("add-link changed more than it documents (removed %d, changed genes %v, new nodes %d)", removed, changed, len(newNodes))
		}
		if len(newGenes) != 1 {
			return fmt.Errorf("a successful add-link must add exactly one gene, added %d", len(newGenes))
		}
		g := newGenes[0]
		src, okIn := bNodes[g.In]
		dst, okOut := bNodes[g.Out]
		if !okIn || !okOut {
			return fmt.Errorf("the new gene %d->%d does not join two existing nodes", g.In, g.Out)
		}
		_ = src
		if isSensorRole(dst.Role) {
			return fmt.Errorf("the new gene %d->%d ends in a sensor", g.In, g.Out)
		}
		for _, o := range before.Genes {
			if o.In == g.In && o.Out == g.Out && o.Rec == g.Rec {
				return fmt.Errorf("the new gene %d->%d rec=%v duplicates the existing gene %d", g.In, g.Out, g.Rec, o.Innov)
			}
		}
		if g.Rec {
			rec.Class("add-link: recurrent link")
		}
		if g.Innov < maxInnov(before) {
			rec.Class("add-link reused a recorded innovation")
		}
		rec.NonTrivial(shape)
	case opConnectSensors:
		if removed != 0 || nodesChanged || len(newNodes) != 0 || len(changed) != 0 || !traitsEqual(before, after) {
			return fmt.Errorf("connect-sensors changed more than it documents (removed %d, changed genes %v, new nodes %d)", removed, changed, len(newNodes))
		}
		if len(newGenes) == 0 {
			if ok {
				return fmt.Errorf("connect-sensors reported success without adding a gene")
			}
			return nil
		}
		sensor := newGenes[0].In
		if s, had := bNodes[sensor]; !had || !isSensorRole(s.Role) {
			return fmt.Errorf("new gene %+v does not start at a sensor", newGenes[0])
		}
		for _, o := range before.Genes {
			if o.In == sensor {
				return fmt.Errorf("sensor %d already had the gene %d before connect-sensors added genes from it", sensor, o.Innov)
			}
		}
		targets := map[int]int{}
		for _, g := range newGenes {
			if g.In != sensor {
				return fmt.Errorf("connect-sensors added genes from two sensors (%d and %d)", sensor, g.In)
			}
			if isSensorRole(bNodes[g.Out].Role) {
				return fmt.Errorf("connect-sensors added a gene into the sensor %d", g.Out)
			}
			targets[g.Out]++
		}
		if ok {
			for _, n := range before.Nodes {
				if !isSensorRole(n.Role) && targets[n.Id] != 1 {
					return fmt.Errorf("connect-sensors succeeded but added %d genes from sensor %d to the non-sensor node %d", targets[n.Id], sensor, n.Id)
				}
			}
			rec.Class("connect-sensors connected a sensor")
			rec.NonTrivial(shape)
		}
	default:
		if err := structureUnchanged(before, after); err != nil {
			return fmt.Errorf("%s: %v", op.Kind, err)
		}
		if err := lastEnabledKept(before, after); err != nil {
			return fmt.Errorf("%s: %v", op.Kind, err)
		}
		var flagged []int
		for i := range before.Genes {
			if before.Genes[i].En != after.Genes[i].En {
				flagged = append(flagged, i)
			}
		}
		if op.Kind == opReEnable {
			first := -1
			for i, g := range before.Genes {
				if !g.En {
					first = i
					break
				}
			}
			if len(flagged) > 1 || (len(flagged) == 1 && (flagged[0] != first || !after.Genes[first].En)) {
				return fmt.Errorf("re-enable must enable only the first disabled gene (index %d), flags changed at %v", first, flagged)
			}
			if disabledBefore >= 2 {
				rec.Class("re-enable with several disabled genes")
			}
		}
		if op.Kind == opToggle && len(flagged) > 0 {
			rec.Class("toggle changed a flag")
		}
		if op.Kind != opToggle && op.Kind != opReEnable && op.Kind != opAllNonStruct && len(flagged) > 0 {
			rec.Class("weight/trait mutation changed an enabled flag (outside the statement, not asserted)")
		}
		if DiffSpec(before, after) != "" {
			rec.NonTrivial(shape)
		}
	}
	if disabledBefore > 0 {
		rec.Class("genome with disabled genes")
	}
	if biasGenes > 0 {
		rec.Class("genome with genes from a bias node")
	}
	return nil
}

func maxInnov(s GenomeSpec) int64 {
	var m int64
	for _, g := range s.Genes {
		if g.Innov > m {
			m = g.Innov
		}
	}
	return m
}

func CheckC05(c HistoryCase, rec *Rec) error {
	return runHistory(c, historyChecks{c05: true}, rec)
}

/* one structural mutation on a large genome in which few genes are eligible for a split (most genes disabled or leaving a
   bias node): the uniform-draw branch of add-node (15 genes or more) runs out of tries */

type C05Direct struct {
	G  GenomeSpec `json:"genome"`
	Op OpSpec     `json:"op"`
}

func GenC05Direct() *rapid.Generator[C05Direct] {
	gg := genGenomeSpec(GenomeCfg{MinGenes: 15, MaxGenes: 40, MaxHidden: 8, ModestWeight: true, EnabledOf10: 1})
	return rapid.Custom(func(t *rapid.T) C05Direct {
		return C05Direct{G: gg.Draw(t, "genome"), Op: drawOp(t, []string{opAddNode, opAddNode, opAddNode, opAddLink, opToggle, opReEnable})}
	})
}

func CheckC05Direct(c C05Direct, rec *Rec) error {
	g := c.G.Build()
	opts := defaultOpts().Build()
	pop := populationFor(c.G)
	before := Snapshot(g)
	seedLibrary(c.Op.Seed)
	ok, err := applyMutator(g, c.Op, pop, opts)
	if err != nil {
		return fmt.Errorf("%s returned error %v", c.Op.Kind, err)
	}
	after := Snapshot(g)
	enabled := 0
	for _, gn := range before.Genes {
		if gn.En {
			enabled++
		}
	}
	rec.Class(fmt.Sprintf("op:%s result:%v", c.Op.Kind, ok))
	if len(before.Genes) >= 15 && enabled*5 <= len(before.Genes) {
		rec.Class("15 genes or more, at most a fifth enabled")
	}
	if err := checkMutation(before, after, c.Op, ok, false, rec); err != nil {
		return fmt.Errorf("%s (result %v): %v\nbefore %s\nafter  %s", c.Op.Kind, ok, err, jsonStr(before), jsonStr(after))
	}
	return nil
}

func TestC05Direct(t *testing.T) {
	runProp(t, "C05", "direct", 1500, 30000, GenC05Direct(), CheckC05Direct)
}

func TestC05(t *testing.T) {
	runProp(t, "C05", "history", 1500, 30000, genHistory(pick(50, 120)), CheckC05)
}

func init() {
	registerReplay("C05", "history", CheckC05)
	registerReplay("C05", "direct", CheckC05Direct)
}
