package props

import (
	"fmt"
	"testing"
	"unsafe"

	"github.com/yaricom/goNEAT/v4/neat/genetics"
	"pgregory.net/rapid"
)

/* C06 - duplicating a genome gives an exact, independent copy */

type C06Dup struct {
	G      GenomeSpec `json:"genome"`
	NewId  int        `json:"new_id"`
	OnCopy bool       `json:"mutate_copy"`
	Ops    []OpSpec   `json:"ops"`
}

func GenC06Dup() *rapid.Generator[C06Dup] {
	gg := genGenomeSpec(GenomeCfg{Modules: true, MinGenes: 1, Big: true, ModLinkW: true, ModLinkTr: true, LargeNumbers: true})
	return rapid.Custom(func(t *rapid.T) C06Dup {
		c := C06Dup{G: gg.Draw(t, "genome"), NewId: rapid.IntRange(0, 1000).Draw(t, "new id"), OnCopy: rapid.Bool().Draw(t, "mutate copy")}
		if rapid.IntRange(0, 5).Draw(t, "other trait lengths") == 0 {
			// traits built in code may carry any number of parameters (the file formats fix eight)
			for i := range c.G.Traits {
				n := rapid.IntRange(0, 12).Draw(t, "trait params")
				p := make([]float64, n)
				for j := range p {
					p[j] = rapid.Float64Range(-2, 2).Draw(t, "trait param")
				}
				c.G.Traits[i].Params = p
			}
		}
		kinds := mutatorKinds
		if len(c.G.Modules) > 0 {
			kinds = nonStructuralKinds // structural mutators are defined for non-modular genomes (see C01)
		}
		n := rapid.IntRange(0, 6).Draw(t, "ops")
		for i := 0; i < n; i++ {
			c.Ops = append(c.Ops, drawOp(t, kinds))
		}
		return c
	})
}

// sharedState lists mutable objects reachable from both genomes.
func sharedState(a, b *genetics.Genome) error {
	ptrs := map[unsafe.Pointer]string{}
	add := func(p unsafe.Pointer, what string) {
		if p != nil {
			ptrs[p] = what
		}
	}
	probe := func(p unsafe.Pointer, what string) error {
		if p == nil {
			return nil
		}
		if w, ok := ptrs[p]; ok {
			return fmt.Errorf("copy and original share %s (as %s)", what, w)
		}
		return nil
	}
	for _, t := range a.Traits {
		add(unsafe.Pointer(t), "a trait")
		if len(t.Params) > 0 {
			add(unsafe.Pointer(&t.Params[0]), "a trait's parameter array")
		}
	}
	for _, n := range a.Nodes {
		add(unsafe.Pointer(n), "a node")
	}
	for _, g := range a.Genes {
		add(unsafe.Pointer(g), "a gene")
		add(unsafe.Pointer(g.Link), "a link")
		if len(g.Link.Params) > 0 {
			add(unsafe.Pointer(&g.Link.Params[0]), "a link's parameter array")
		}
	}
	for _, cg := range a.ControlGenes {
		add(unsafe.Pointer(cg), "a control gene")
		add(unsafe.Pointer(cg.ControlNode), "a control node")
		for _, l := range cg.ControlNode.Incoming {
			add(unsafe.Pointer(l), "a module link")
		}
		for _, l := range cg.ControlNode.Outgoing {
			add(unsafe.Pointer(l), "a module link")
		}
	}
	if len(a.Traits) > 0 {
		add(unsafe.Pointer(&a.Traits[0]), "the trait list's backing array")
	}
	if len(a.Nodes) > 0 {
		add(unsafe.Pointer(&a.Nodes[0]), "the node list's backing array")
	}
	if len(a.Genes) > 0 {
		add(unsafe.Pointer(&a.Genes[0]), "the gene list's backing array")
	}
	if len(a.ControlGenes) > 0 {
		add(unsafe.Pointer(&a.ControlGenes[0]), "the module list's backing array")
	}
	var errs []error
	chk := func(p unsafe.Pointer, what string) {
		if err := probe(p, what); err != nil {
			errs = append(errs, err)
		}
	}
	for _, t := range b.Traits {
		chk(unsafe.Pointer(t), "a trait")
		if len(t.Params) > 0 {
			chk(unsafe.Pointer(&t.Params[0]), "a trait's parameter array")
		}
	}
	for _, n := range b.Nodes {
		chk(unsafe.Pointer(n), "a node")
		chk(unsafe.Pointer(n.Trait), "a node's trait")
	}
	for _, g := range b.Genes {
		chk(unsafe.Pointer(g), "a gene")
		chk(unsafe.Pointer(g.Link), "a link")
		chk(unsafe.Pointer(g.Link.InNode), "a gene's source node")
		chk(unsafe.Pointer(g.Link.OutNode), "a gene's target node")
		chk(unsafe.Pointer(g.Link.Trait), "a gene's trait")
		if len(g.Link.Params) > 0 {
			chk(unsafe.Pointer(&g.Link.Params[0]), "a link's parameter array")
		}
	}
	for _, cg := range b.ControlGenes {
		chk(unsafe.Pointer(cg), "a control gene")
		chk(unsafe.Pointer(cg.ControlNode), "a control node")
		chk(unsafe.Pointer(cg.ControlNode.Trait), "a control node's trait")
		for _, l := range cg.ControlNode.Incoming {
			chk(unsafe.Pointer(l), "a module link")
			chk(unsafe.Pointer(l.InNode), "a module input node")
			chk(unsafe.Pointer(l.Trait), "a module link's trait")
		}
		for _, l := range cg.ControlNode.Outgoing {
			chk(unsafe.Pointer(l), "a module link")
			chk(unsafe.Pointer(l.OutNode), "a module output node")
			chk(unsafe.Pointer(l.Trait), "a module link's trait")
		}
		for _, n := range cg.VerifIONodes() {
			chk(unsafe.Pointer(n), "a node in a module's list of input/output nodes")
		}
	}
	if len(b.Traits) > 0 {
		chk(unsafe.Pointer(&b.Traits[0]), "the trait list's backing array")
	}
	if len(b.Nodes) > 0 {
		chk(unsafe.Pointer(&b.Nodes[0]), "the node list's backing array")
	}
	if len(b.Genes) > 0 {
		chk(unsafe.Pointer(&b.Genes[0]), "the gene list's backing array")
	}
	if len(b.ControlGenes) > 0 {
		chk(unsafe.Pointer(&b.ControlGenes[0]), "the module list's backing array")
	}
	if len(errs) > 0 {
		return errs[0]
	}
	return nil
}

// lookupOwn: looking a node up by id in g returns g's own node for its ids and nothing for the ids in others that g
// does not hold (an id index shared between a copy and its original answers for nodes of the other genome).
func lookupOwn(g *genetics.Genome, others ...GenomeSpec) error {
	own := map[int]bool{}
	for _, n := range g.Nodes {
		own[n.Id] = true
		if g.NodeWithId(n.Id) != n {
			return fmt.Errorf("looking up node id %d does not return the genome's own node", n.Id)
		}
	}
	for _, o := range others {
		for _, n := range o.Nodes {
			if !own[n.Id] && g.NodeWithId(n.Id) != nil {
				return fmt.Errorf("looking up node id %d, which the genome does not hold, returns a node", n.Id)
			}
		}
	}
	return nil
}

func specFeatures(s GenomeSpec) (disabled, recurrent, nilTraits int) {
	for _, g := range s.Genes {
		if !g.En {
			disabled++
		}
		if g.Rec {
			recurrent++
		}
		if g.Trait == 0 {
			nilTraits++
		}
	}
	for _, n := range s.Nodes {
		if n.Trait == 0 {
			nilTraits++
		}
	}
	return
}

func CheckC06Dup(c C06Dup, rec *Rec) error {
	orig := c.G.Build()
	before := Snapshot(orig)
	if d := DiffSpec(before, c.G); d != "" {
		return fmt.Errorf("harness: build/snapshot do not round-trip: %s", d)
	}
	dup, err := orig.VerifDuplicate(c.NewId)
	if err != nil {
		return fmt.Errorf("duplicate returned error: %v", err)
	}
	if dup.Id != c.NewId {
		return fmt.Errorf("duplicate has id %d, requested %d", dup.Id, c.NewId)
	}
	if d := DiffSpec(before, Snapshot(dup)); d != "" {
		return fmt.Errorf("duplicate differs from the original: %s", d)
	}
	if d := DiffSpec(before, Snapshot(orig)); d != "" {
		return fmt.Errorf("duplicating changed the original: %s", d)
	}
	if err := sharedState(orig, dup); err != nil {
		return err
	}
	disabled, recurrent, nilTraits := specFeatures(c.G)
	for _, tr := range c.G.Traits {
		if len(tr.Params) != 8 {
			rec.Class("trait without exactly eight parameters")
			break
		}
	}
	for _, m := range c.G.Modules {
		for _, tr := range m.LinkTr {
			if tr != 0 {
				rec.Class("module link that carries a trait")
				break
			}
		}
	}
	if disabled > 0 {
		rec.Class("disabled gene")
	}
	if recurrent > 0 {
		rec.Class("recurrent gene")
	}
	if nilTraits > 0 {
		rec.Class("nil trait")
	}
	if len(c.G.Modules) > 0 {
		rec.Class("modular")
		for _, m := range c.G.Modules {
			if !m.En {
				rec.Class("disabled module")
			}
		}
	}
	if disabled > 0 || len(c.G.Modules) > 0 || nilTraits > 0 {
		rec.NonTrivial(hashOf(len(c.G.Nodes), len(c.G.Genes), len(c.G.Modules), disabled, recurrent, nilTraits))
	}
	// mutate one side, the other one must not change
	subject, other := orig, dup
	if c.OnCopy {
		subject, other = dup, orig
	}
	opts := defaultOpts().Build()
	pop := populationFor(c.G)
	for i, op := range c.Ops {
		seedLibrary(op.Seed)
		subject.Phenotype = nil // every caller hands mutators a genome without (or with a current) phenotype
		_, err := call(op.Kind, func() error { _, e := applyMutator(subject, op, pop, opts); return e })
		if err != nil {
			rec.Class("mutator panicked (outside C06)")
			break
		}
		rec.Class("op:" + op.Kind)
		side := "original"
		if !c.OnCopy {
			side = "copy"
		}
		if d := DiffSpec(before, Snapshot(other)); d != "" {
			return fmt.Errorf("after %s (step %d) on the other genome the %s changed: %s", op.Kind, i, side, d)
		}
		if err := lookupOwn(other, Snapshot(subject)); err != nil {
			return fmt.Errorf("after %s (step %d) on the other genome, in the %s: %v", op.Kind, i, side, err)
		}
	}
	return nil
}

type C06Spawn struct {
	G    GenomeSpec `json:"genome"`
	Opts OptSpec    `json:"opts"`
	Seed int64      `json:"seed"`
}

func GenC06Spawn() *rapid.Generator[C06Spawn] {
	gg := genGenomeSpec(GenomeCfg{Modules: true, MinGenes: 1, Big: true, ModLinkW: true, ModLinkTr: true, LargeNumbers: true})
	og := genOpts(OptsCfg{MaxPop: 12})
	return rapid.Custom(func(t *rapid.T) C06Spawn {
		return C06Spawn{G: gg.Draw(t, "genome"), Opts: og.Draw(t, "opts"), Seed: int64(rapid.IntRange(0, 1<<30).Draw(t, "seed"))}
	})
}

func CheckC06Spawn(c C06Spawn, rec *Rec) error {
	start := c.G.Build()
	before := Snapshot(start)
	seedLibrary(c.Seed)
	pop, err := genetics.NewPopulation(start, c.Opts.Build())
	if err != nil {
		return fmt.Errorf("NewPopulation returned error: %v", err)
	}
	if d := DiffSpec(before, Snapshot(start)); d != "" {
		return fmt.Errorf("spawning changed the start genome: %s", d)
	}
	if len(pop.Organisms) != c.Opts.PopSize {
		return fmt.Errorf("spawned %d organisms, population size is %d", len(pop.Organisms), c.Opts.PopSize)
	}
	disabled, _, _ := specFeatures(c.G)
	if disabled > 0 {
		rec.Class("start genome with disabled genes")
		rec.NonTrivial(hashOf(len(c.G.Genes), disabled, len(c.G.Modules), c.Opts.PopSize))
	}
	if len(c.G.Modules) > 0 {
		rec.Class("modular start genome")
	}
	for i, org := range pop.Organisms {
		s := Snapshot(org.Genotype)
		if len(s.Genes) != len(before.Genes) {
			return fmt.Errorf("organism %d has %d genes, start genome %d", i, len(s.Genes), len(before.Genes))
		}
		// only weights and the mutation numbers that mirror them may differ
		for j := range s.Genes {
			if s.Genes[j].Mut != s.Genes[j].W {
				return fmt.Errorf("organism %d gene %d: mutation number %v does not mirror the weight %v", i, j, s.Genes[j].Mut, s.Genes[j].W)
			}
			s.Genes[j].W, s.Genes[j].Mut = before.Genes[j].W, before.Genes[j].Mut
		}
		if d := DiffSpec(before, s); d != "" {
			return fmt.Errorf("organism %d differs from the start genome in more than weights: %s", i, d)
		}
		if err := sharedState(start, org.Genotype); err != nil {
			return fmt.Errorf("organism %d: %v", i, err)
		}
		if i > 0 {
			if err := sharedState(pop.Organisms[i-1].Genotype, org.Genotype); err != nil {
				return fmt.Errorf("organisms %d and %d: %v", i-1, i, err)
			}
		}
	}
	return nil
}

func TestC06Dup(t *testing.T) {
	runProp(t, "C06", "dup", 6000, 150000, GenC06Dup(), CheckC06Dup)
}

func TestC06Spawn(t *testing.T) {
	runProp(t, "C06", "spawn", 1500, 30000, GenC06Spawn(), CheckC06Spawn)
}

// duplicates of genomes reached by operator histories; later actions of the history mutate source and copy at random,
// the C01 pool keeps both, and every further duplicate is compared again
func CheckC06History(c HistoryCase, rec *Rec) error {
	return runHistory(c, historyChecks{c06: true}, rec)
}

func TestC06History(t *testing.T) {
	runProp(t, "C06", "history", 1500, 30000, genHistory(pick(60, 150)), CheckC06History)
}

func init() {
	registerReplay("C06", "history", CheckC06History)
	registerReplay("C06", "dup", CheckC06Dup)
	registerReplay("C06", "spawn", CheckC06Spawn)
}
