package props

import (
	"fmt"
	"math"
	"testing"

	"github.com/yaricom/goNEAT/v4/neat"
	"github.com/yaricom/goNEAT/v4/neat/genetics"
	"pgregory.net/rapid"
)

/* C07 - compatibility distance equals the NEAT formula under both methods */

type C07Case struct {
	Pattern  string     `json:"pattern"`
	A        []innovMut `json:"a"`
	B        []innovMut `json:"b"`
	Excess   float64    `json:"excess_coeff"`
	Disjoint float64    `json:"disjoint_coeff"`
	Mutdiff  float64    `json:"mutdiff_coeff"`
	// genome ids of the two sides: the distance is a function of the genes only, ids are not unique in the library
	// (children are numbered per species, organisms are renumbered after every epoch)
	IdA int `json:"id_a"`
	IdB int `json:"id_b"`
	// Thr: the compatibility threshold carried by the same options object; the distance is not a function of it
	Thr float64 `json:"compat_threshold"`
	// DisA / DisB: positions of disabled genes in a and b (the distance counts genes by innovation number, enabled or not)
	DisA []int `json:"disabled_a,omitempty"`
	DisB []int `json:"disabled_b,omitempty"`
	// AltA / AltB: positions of genes that join other nodes (and carry the recurrence flag) than the gene of the same
	// innovation number on the other side does: genes are counted by innovation number, whatever they connect
	AltA []int `json:"other_link_a,omitempty"`
	AltB []int `json:"other_link_b,omitempty"`
	// Arena: the two gene lists are carved from one backing array (1: a's genes first, 2: b's genes first), so the slice
	// that comes first has spare capacity that reaches into the other list - the distance is a read-only query
	Arena int `json:"shared_backing_array,omitempty"`
	// ModsA / ModsB: number of modules (control genes) the genomes carry besides their connection genes; the distance is a
	// function of the connection genes only, for both methods
	ModsA int `json:"modules_a,omitempty"`
	ModsB int `json:"modules_b,omitempty"`
	// Base: offset added to every innovation number (populations that have lived long, numbers beyond 32 and 53 bits)
	Base int64 `json:"innovation_base,omitempty"`
	// Again: after the comparisons the mutation numbers of a's genes (and of a duplicate of b) are overwritten in place with
	// these values (cycled) - what weight mutation does to a genome between two speciations - and the same genome objects are
	// compared once more: the distance is a function of the genes as they are now
	Again []float64 `json:"mutation_numbers_afterwards,omitempty"`
}

func genMutNum() *rapid.Generator[float64] {
	return rapid.OneOf(
		rapid.Float64Range(-10, 10),
		rapid.Float64Range(-10, 10),
		rapid.Float64Range(-1e6, 1e6),
		rapid.SampledFrom([]float64{0, 1, -1, 0.5, 2.5, 1e30, -1e30, 1e-30, 5e-324, 1e100, -1e100}),
	)
}

func genCoeff() *rapid.Generator[float64] {
	return rapid.OneOf(
		rapid.Float64Range(0, 5),
		rapid.Float64Range(0, 5),
		rapid.SampledFrom([]float64{0, 1, 0.4, 2, 3, 1000, 1e-6}),
	)
}

func GenC07() *rapid.Generator[C07Case] {
	return rapid.Custom(func(t *rapid.T) C07Case {
		c := C07Case{Excess: genCoeff().Draw(t, "excess"), Disjoint: genCoeff().Draw(t, "disjoint"), Mutdiff: genCoeff().Draw(t, "mutdiff")}
		c.Pattern = rapid.SampledFrom([]string{"mixed", "mixed", "mixed", "identical", "prefix", "interleaved", "blocks", "tail", "single", "empty"}).Draw(t, "pattern")
		n := rapid.IntRange(1, pick(60, 120)).Draw(t, "n")
		if rapid.IntRange(0, 59).Draw(t, "long lists") == 31 {
			n = rapid.IntRange(120, 600).Draw(t, "n (long)")
		}
		// the universe of innovation numbers, strictly increasing with random gaps
		innovs := make([]int64, n)
		cur := int64(rapid.IntRange(0, 5).Draw(t, "first"))
		for i := range innovs {
			cur += int64(rapid.IntRange(1, 4).Draw(t, "gap"))
			innovs[i] = cur
		}
		pBoth := rapid.Float64Range(0, 1).Draw(t, "pBoth")
		pA := rapid.Float64Range(0, 1).Draw(t, "pA")
		k := rapid.IntRange(0, n).Draw(t, "k")
		for i, v := range innovs {
			where := 0 // 1 = A only, 2 = B only, 3 = both
			switch c.Pattern {
			case "mixed":
				u := rapid.Float64Range(0, 1).Draw(t, "u")
				if u < pBoth {
					where = 3
				} else if rapid.Float64Range(0, 1).Draw(t, "v") < pA {
					where = 1
				} else {
					where = 2
				}
			case "identical":
				where = 3
			case "prefix": // one list is a prefix of the other
				if i < k || k == 0 {
					where = 3
				} else {
					where = 1
				}
			case "interleaved": // no gene matches, strictly alternating
				where = 1 + i%2
			case "blocks": // no overlap: all of A below all of B
				if i < k {
					where = 1
				} else {
					where = 2
				}
			case "tail": // common head, disjoint middle, long excess tail on one side
				switch {
				case i < k/2:
					where = 3
				case i < k:
					where = 1 + i%2
				default:
					where = 2
				}
			case "single":
				if i == 0 {
					where = 1 + rapid.IntRange(0, 2).Draw(t, "w")
				} else if i == 1 {
					where = 1 + rapid.IntRange(0, 2).Draw(t, "w")
				}
			case "empty": // one or both lists empty
				if k%3 == 1 {
					where = 1
				} else if k%3 == 2 {
					where = 0
				}
			}
			if where == 0 {
				continue
			}
			m := genMutNum().Draw(t, "mut")
			if where&1 != 0 {
				c.A = append(c.A, innovMut{v, m})
			}
			if where&2 != 0 {
				mb := m
				if rapid.IntRange(0, 3).Draw(t, "samemut") != 0 {
					mb = genMutNum().Draw(t, "mutb")
				}
				c.B = append(c.B, innovMut{v, mb})
			}
		}
		if rapid.Bool().Draw(t, "swap") {
			c.A, c.B = c.B, c.A
		}
		c.IdA, c.IdB = rapid.IntRange(0, 3).Draw(t, "id a"), rapid.IntRange(0, 3).Draw(t, "id b")
		if rapid.Bool().Draw(t, "disabled genes") {
			for i := range c.A {
				if rapid.IntRange(0, 2).Draw(t, "disabled a") == 0 {
					c.DisA = append(c.DisA, i)
				}
			}
			for i := range c.B {
				if rapid.IntRange(0, 2).Draw(t, "disabled b") == 0 {
					c.DisB = append(c.DisB, i)
				}
			}
		}
		if rapid.IntRange(0, 3).Draw(t, "other links") == 0 {
			for i := range c.A {
				if rapid.IntRange(0, 3).Draw(t, "other link a") == 0 {
					c.AltA = append(c.AltA, i)
				}
			}
			for i := range c.B {
				if rapid.IntRange(0, 3).Draw(t, "other link b") == 0 {
					c.AltB = append(c.AltB, i)
				}
			}
		}
		c.Thr = rapid.OneOf(rapid.Just(0.0), rapid.Float64Range(0.01, 5), rapid.Float64Range(1, 100)).Draw(t, "threshold")
		if rapid.IntRange(0, 5).Draw(t, "modules") == 0 {
			c.ModsA, c.ModsB = rapid.IntRange(0, 3).Draw(t, "modules a"), rapid.IntRange(0, 3).Draw(t, "modules b")
		}
		if rapid.IntRange(0, 5).Draw(t, "arena") == 0 {
			c.Arena = rapid.IntRange(1, 2).Draw(t, "arena order")
		}
		if rapid.IntRange(0, 3).Draw(t, "large innovation numbers") == 0 {
			c.Base = rapid.SampledFrom([]int64{1<<31 - 40, 1 << 32, 1<<53 - 7, 1 << 62}).Draw(t, "base")
			for i := range c.A {
				c.A[i].Innov += c.Base
			}
			for i := range c.B {
				c.B[i].Innov += c.Base
			}
		}
		if rapid.IntRange(0, 2).Draw(t, "compared again after a weight mutation") == 0 {
			c.Again = rapid.SliceOfN(genMutNum(), 1, 6).Draw(t, "mutation numbers afterwards")
		}
		return c
	})
}

// compatGenome builds a well-formed genome whose gene list carries the given innovation / mutation numbers: gene
// with innovation v joins the input node 1 with the hidden node 100+v, so equal innovation numbers denote equal links.
func compatGenome(id int, list []innovMut, alt ...int) *genetics.Genome {
	return compatGenomeMods(id, list, 0, 0, alt...)
}

// base: the offset that was added to every innovation number (node ids are derived from the numbers without it)
func compatGenomeMods(id int, list []innovMut, mods int, base int64, alt ...int) *genetics.Genome {
	s := GenomeSpec{Id: id, Traits: []TraitSpec{{Id: 1, Params: make([]float64, neat.NumTraitParams)}}}
	s.Nodes = append(s.Nodes, NodeSpec{Id: 1, Role: roleInput, Act: 17, Trait: 1}, NodeSpec{Id: 2, Role: roleOutput, Act: 4, Trait: 1})
	other := map[int]bool{}
	for _, i := range alt {
		other[i] = true
	}
	for i, x := range list {
		hid := 100 + int(x.Innov-base)
		s.Nodes = append(s.Nodes, NodeSpec{Id: hid, Role: roleHidden, Act: 4, Trait: 1})
		g := GeneSpec{In: 1, Out: hid, W: x.Mut, Innov: x.Innov, Mut: x.Mut, En: true, Trait: 1}
		if i%3 == 1 { // a gene without a trait whose weight differs from its mutation number
			g.Trait, g.W = 0, 0.5*x.Mut+1
			if math.IsInf(g.W, 0) {
				g.W = 1
			}
		}
		if other[i] { // the same innovation number on another link: from the hidden node to the output, flagged recurrent
			g.In, g.Out, g.Rec = hid, 2, true
		}
		s.Genes = append(s.Genes, g)
	}
	_, maxInnov := maxIds(s)
	for k := 0; k < mods; k++ {
		s.Modules = append(s.Modules, ModuleSpec{Id: 1000000 + k, Act: 21, Innov: maxInnov + 1 + int64(k), Mut: float64(k), En: k%2 == 0, Ins: []int{1}, Outs: []int{2}})
	}
	return s.Build()
}

func checkDistance(name string, got, ref float64) error {
	if math.IsNaN(got) {
		return fmt.Errorf("%s is NaN (formula gives %v)", name, ref)
	}
	if got < 0 {
		return fmt.Errorf("%s is negative: %v", name, got)
	}
	if !approxEq(got, ref, 1e-9) {
		return fmt.Errorf("%s = %v but the formula gives %v", name, got, ref)
	}
	return nil
}

func CheckC07(c C07Case, rec *Rec) error {
	a, b := compatGenomeMods(c.IdA, c.A, c.ModsA, c.Base, c.AltA...), compatGenomeMods(c.IdB, c.B, c.ModsB, c.Base, c.AltB...)
	if c.Base > 0 {
		rec.Class("innovation numbers beyond 31 bits")
	}
	if c.ModsA != c.ModsB {
		rec.Class("genomes with different numbers of modules")
	}
	if len(c.AltA)+len(c.AltB) > 0 {
		rec.Class("equal innovation numbers on different links")
	}
	bothDisabled := map[int64]int{}
	for _, i := range c.DisA {
		if i < len(a.Genes) {
			a.Genes[i].IsEnabled = false
			bothDisabled[a.Genes[i].InnovationNum]++
		}
	}
	for _, i := range c.DisB {
		if i < len(b.Genes) {
			b.Genes[i].IsEnabled = false
			bothDisabled[b.Genes[i].InnovationNum]++
		}
	}
	for _, k := range bothDisabled {
		if k == 2 {
			rec.Class("matching gene disabled in both genomes")
			break
		}
	}
	if c.IdA == c.IdB {
		rec.Class("both genomes carry the same id")
	}
	if c.Arena > 0 {
		first, second := a, b
		if c.Arena == 2 {
			first, second = b, a
		}
		arena := make([]*genetics.Gene, len(first.Genes)+len(second.Genes)+1)
		copy(arena, first.Genes)
		copy(arena[len(first.Genes):], second.Genes)
		n1, n2 := len(first.Genes), len(second.Genes)
		first.Genes, second.Genes = arena[:n1], arena[n1:n1+n2]
		rec.Class("gene lists carved from one backing array")
	}
	genesBefore := [2][]*genetics.Gene{append([]*genetics.Gene{}, a.Genes...), append([]*genetics.Gene{}, b.Genes...)}
	untouched := func(when string) error {
		for k, g := range []*genetics.Genome{a, b} {
			if len(g.Genes) != len(genesBefore[k]) {
				return fmt.Errorf("%s: the gene list of an argument changed length from %d to %d", when, len(genesBefore[k]), len(g.Genes))
			}
			for i := range g.Genes {
				if g.Genes[i] != genesBefore[k][i] {
					return fmt.Errorf("%s: gene %d of an argument genome was replaced by the distance computation", when, i)
				}
			}
		}
		return nil
	}
	// the options object has a past: it served distance computations under other coefficients (both methods) before it
	// received this case's coefficients - in place, or as a by-value copy of the used object
	used := &neat.Options{ExcessCoeff: c.Excess + 1, DisjointCoeff: c.Disjoint + 2, MutdiffCoeff: c.Mutdiff + 3, CompatThreshold: c.Thr + 1, PopSize: 10, DropOffAge: 15}
	for _, method := range []neat.GenomeCompatibilityMethod{neat.GenomeCompatibilityMethodLinear, neat.GenomeCompatibilityMethodFast} {
		used.GenCompatMethod = method
		_ = a.VerifCompatibility(b, used)
	}
	_ = used.NeatContext()
	opts := used
	if (len(c.A)+len(c.B))%2 == 1 {
		cp := *used
		opts = &cp
	}
	opts.ExcessCoeff, opts.DisjointCoeff, opts.MutdiffCoeff, opts.CompatThreshold = c.Excess, c.Disjoint, c.Mutdiff, c.Thr
	if c.Thr > 0 {
		rec.Class("options carry a positive compatibility threshold")
	}
	e, d, m, w := RefCompatParts(c.A, c.B)
	ref := c.Excess*float64(e) + c.Disjoint*float64(d) + c.Mutdiff*w

	rec.Class("pattern:" + c.Pattern)
	if len(c.A) == 0 || len(c.B) == 0 {
		rec.Class("gene-less side")
	}
	if m == 0 {
		rec.Class("no matching gene")
	}
	if e > 0 && d > 0 {
		rec.Class("excess and disjoint")
	}
	if len(c.A) != len(c.B) && d > 0 {
		rec.Class("different lengths with disjoint genes")
	}
	if e+d > 0 && (d > 0 || m == 0) {
		rec.NonTrivial(hashOf(len(c.A), len(c.B), e, d, m, c.Pattern))
	}

	for _, method := range []neat.GenomeCompatibilityMethod{neat.GenomeCompatibilityMethodLinear, neat.GenomeCompatibilityMethodFast} {
		opts.GenCompatMethod = method
		ab := a.VerifCompatibility(b, opts)
		ba := b.VerifCompatibility(a, opts)
		if err := untouched(string(method)); err != nil {
			return err
		}
		if err := checkDistance(fmt.Sprintf("%s d(a,b) [E=%d D=%d M=%d W=%v]", method, e, d, m, w), ab, ref); err != nil {
			return err
		}
		if err := checkDistance(fmt.Sprintf("%s d(b,a) [E=%d D=%d M=%d W=%v]", method, e, d, m, w), ba, ref); err != nil {
			return err
		}
		if !approxEq(ab, ba, 1e-9) {
			return fmt.Errorf("%s distance is not symmetric: d(a,b)=%v d(b,a)=%v", method, ab, ba)
		}
		for _, g := range []*genetics.Genome{a, b} {
			if self := g.VerifCompatibility(g, opts); self != 0 {
				return fmt.Errorf("%s distance of a genome (%d genes) to itself is %v, not 0", method, len(g.Genes), self)
			}
			dup, err := g.VerifDuplicate(99)
			if err != nil {
				return fmt.Errorf("duplicate failed: %v", err)
			}
			if dd := g.VerifCompatibility(dup, opts); dd != 0 {
				return fmt.Errorf("%s distance of a genome (%d genes) to its duplicate is %v, not 0", method, len(g.Genes), dd)
			}
		}
	}
	lin, fast := a.VerifCompatLinear(b, opts), a.VerifCompatFast(b, opts)
	if math.IsNaN(lin) || math.IsNaN(fast) || !approxEq(lin, fast, 1e-9) {
		return fmt.Errorf("the two methods disagree: linear=%v fast=%v (formula %v)", lin, fast, ref)
	}
	if len(c.Again) > 0 {
		// the same genome objects after a weight mutation: a's mutation numbers are overwritten in place, and so are those of a
		// duplicate of b that was just found to be at distance 0 from b
		rec.Class("same genome objects compared again after their mutation numbers changed in place")
		a2 := append([]innovMut(nil), c.A...)
		for i, gn := range a.Genes {
			gn.MutationNum = c.Again[i%len(c.Again)]
			a2[i].Mut = gn.MutationNum
		}
		dup, err := b.VerifDuplicate(98)
		if err != nil {
			return fmt.Errorf("duplicate failed: %v", err)
		}
		opts.GenCompatMethod = neat.GenomeCompatibilityMethodLinear
		if dd := b.VerifCompatibility(dup, opts); dd != 0 {
			return fmt.Errorf("distance of a genome to its duplicate is %v, not 0", dd)
		}
		d2 := append([]innovMut(nil), c.B...)
		for i, gn := range dup.Genes {
			gn.MutationNum = c.Again[(i+1)%len(c.Again)]
			d2[i].Mut = gn.MutationNum
		}
		_, _, _, w2 := RefCompatParts(c.B, d2)
		e3, d3, m3, w3 := RefCompatParts(a2, c.B)
		refAB := c.Excess*float64(e3) + c.Disjoint*float64(d3) + c.Mutdiff*w3
		for _, method := range []neat.GenomeCompatibilityMethod{neat.GenomeCompatibilityMethodLinear, neat.GenomeCompatibilityMethodFast} {
			opts.GenCompatMethod = method
			if err := checkDistance(fmt.Sprintf("%s d(b, its duplicate after the duplicate's mutation numbers changed) [M=%d W=%v]", method, len(c.B), w2),
				b.VerifCompatibility(dup, opts), c.Mutdiff*w2); err != nil {
				return err
			}
			if err := checkDistance(fmt.Sprintf("%s d(a,b) after a's mutation numbers changed in place [E=%d D=%d M=%d W=%v]", method, e3, d3, m3, w3),
				a.VerifCompatibility(b, opts), refAB); err != nil {
				return err
			}
			if err := checkDistance(fmt.Sprintf("%s d(b,a) after a's mutation numbers changed in place [E=%d D=%d M=%d W=%v]", method, e3, d3, m3, w3),
				b.VerifCompatibility(a, opts), refAB); err != nil {
				return err
			}
		}
	}
	return nil
}

func TestC07(t *testing.T) {
	runProp(t, "C07", "lists", 30000, 400000, GenC07(), CheckC07)
}

func init() { registerReplay("C07", "lists", CheckC07) }
