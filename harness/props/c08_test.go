package props

import (
	"context"
	"errors"
	"fmt"
	"math"
	"sort"
	"testing"

	"github.com/yaricom/goNEAT/v4/neat"
	"github.com/yaricom/goNEAT/v4/neat/genetics"
	"pgregory.net/rapid"
)

/* C08 - speciation puts each organism in its nearest compatible species */

func distTol(d float64) float64 { return 1e-9 * (1 + math.Abs(d)) }

// replaySpeciation is M5. arrivals are the organisms in their order of arrival (all species of the population
// must have been founded by these arrivals). The outcome of every assignment is read from the library's result
// (Organism.Species, position in Species.Organisms) and judged against the rule using the reference distance;
// decisions within tolerance of the threshold or of a second-best candidate are accepted either way and counted.
func replaySpeciation(arrivals []*genetics.Organism, thr, exc, dis, mut float64, rec *Rec) error {
	return replaySpeciationEvents(arrivals, nil, false, thr, exc, dis, mut, rec)
}

// replaySpeciationEvents: removedBefore[i] lists species that left the population before arrival i (extinction);
// exact = every distance is a sum of a few dyadic rationals (integer-valued coefficients, no mutation term), hence
// computed without rounding in any order: decisions are then judged without tolerance, also exactly at the threshold.
func replaySpeciationEvents(arrivals []*genetics.Organism, removedBefore map[int][]*genetics.Species, exact bool, thr, exc, dis, mut float64, rec *Rec) error {
	return replaySpeciationFrom(nil, math.MinInt64, arrivals, removedBefore, exact, thr, exc, dis, mut, rec)
}

type modelSpecies struct {
	sp   *genetics.Species
	rep  []innovMut
	gone bool
}

// replaySpeciationFrom: initial lists the species that exist before the first arrival (with the genes of their
// representatives), lastIssued the largest species id issued so far.
func replaySpeciationFrom(initial []modelSpecies, lastIssued int, arrivals []*genetics.Organism, removedBefore map[int][]*genetics.Species, exact bool, thr, exc, dis, mut float64, rec *Rec) error {
	return replaySpeciationThr(initial, lastIssued, arrivals, removedBefore, exact, nil, thr, exc, dis, mut, rec)
}

// replaySpeciationThr: thrs, when given, holds the threshold in force for each arrival (the options of the call that
// speciated it); otherwise thr applies to all.
func replaySpeciationThr(initial []modelSpecies, lastIssued int, arrivals []*genetics.Organism, removedBefore map[int][]*genetics.Species, exact bool, thrs []float64, thr, exc, dis, mut float64, rec *Rec) error {
	distTol := distTol
	if exact {
		distTol = func(float64) float64 { return 0 }
	}
	species := append([]modelSpecies(nil), initial...)
	known := map[*genetics.Species]int{}
	for k, ms := range species {
		known[ms.sp] = k
	}
	lastId := lastIssued
	for i, o := range arrivals {
		if thrs != nil {
			thr = thrs[i]
		}
		for _, dead := range removedBefore[i] {
			if k, ok := known[dead]; ok {
				species[k].gone = true
				rec.Class("species removed between arrivals")
			}
		}
		sp := o.Species
		if sp == nil {
			return fmt.Errorf("arrival %d was assigned to no species", i)
		}
		genes := innovMutsOf(o.Genotype)
		ds := make([]float64, len(species))
		definitely, possibly := 0, 0
		minPossible := math.Inf(1)
		firstCompatible := -1
		for k, ms := range species {
			if ms.gone {
				ds[k] = math.Inf(1)
				continue
			}
			d := RefCompat(genes, ms.rep, exc, dis, mut)
			ds[k] = d
			if exact && d == thr {
				rec.Class("distance exactly equal to the threshold")
			}
			if d < thr-distTol(d) {
				definitely++
				if firstCompatible < 0 {
					firstCompatible = k
				}
			}
			if d < thr+distTol(d) {
				possibly++
				minPossible = math.Min(minPossible, d)
			}
		}
		idx, existing := known[sp]
		if existing && species[idx].gone {
			return fmt.Errorf("arrival %d was put into species %d, which had left the population", i, sp.Id)
		}
		if !existing {
			// the organism founded a species: nobody may have been (robustly) compatible
			if len(sp.Organisms) == 0 || sp.Organisms[0] != o {
				return fmt.Errorf("arrival %d was put into species %d, which did not exist before, without heading it", i, sp.Id)
			}
			if definitely > 0 {
				return fmt.Errorf("arrival %d founded species %d although %d representatives are closer than the threshold %v (distances %v)", i, sp.Id, definitely, thr, ds)
			}
			if sp.Id <= lastId {
				return fmt.Errorf("new species got the id %d, not a fresh one (last issued %d)", sp.Id, lastId)
			}
			lastId = sp.Id
			known[sp] = len(species)
			species = append(species, modelSpecies{sp: sp, rep: genes})
			if possibly > 0 && !exact {
				rec.Class("ambiguous decision accepted (distance within tolerance of the threshold)")
			}
			if len(species) > 1 {
				rec.Class("arrival founding a species while others exist")
			}
			continue
		}
		d := ds[idx]
		if !(d < thr+distTol(d)) {
			return fmt.Errorf("arrival %d was put into species %d whose representative is at distance %v, not closer than the threshold %v", i, sp.Id, d, thr)
		}
		if d > minPossible+2*distTol(d) {
			return fmt.Errorf("arrival %d was put into species %d at distance %v although a compatible representative is closer (%v); distances %v, threshold %v", i, sp.Id, d, minPossible, ds, thr)
		}
		if definitely >= 2 {
			rec.Class("arrival with several compatible species")
			if firstCompatible >= 0 && ds[firstCompatible] > minPossible+2*distTol(d) {
				rec.Class("first compatible species is not the closest")
				rec.NonTrivial(hashOf(i, len(species), definitely, idx, firstCompatible))
			}
		}
	}
	return nil
}

/* (a) direct: batches of arrivals into a population object */

type C08Direct struct {
	Family   []GenomeSpec `json:"family"`
	Order    []int        `json:"order"`   // arrival order (indexes into the family, repetitions allowed)
	Batches  []int        `json:"batches"` // batch sizes
	Thr      float64      `json:"threshold"`
	Excess   float64      `json:"excess_coeff"`
	Disjoint float64      `json:"disjoint_coeff"`
	Mutdiff  float64      `json:"mutdiff_coeff"`
	Fast     bool         `json:"fast"`
	Exact    bool         `json:"exact"`            // dyadic coefficients, no mutation term, threshold equal to an observed distance
	Remove   []int        `json:"remove,omitempty"` // per batch: species (index modulo the living ones) that goes extinct before the batch, -1 none
	// BatchThr, when present, gives every batch its own threshold (a caller that adapts the threshold between calls passes
	// other options to the next call); 0 = Thr
	BatchThr []float64 `json:"batch_thresholds,omitempty"`
	// CancelAt, when present: per batch the number of organisms after which the context of that call reports cancellation
	// (-1 never). The call then returns the context's error; the organisms it did not reach are handed to a further call.
	CancelAt []int `json:"cancel_at,omitempty"`
	// Fit, when present: the fitness every arriving organism already carries (evaluated before it is speciated); the
	// representative of a species is its first organism, however fit the other members are
	Fit []float64 `json:"fitness,omitempty"`
}

// pollCtx reports cancellation from the (left+1)-th time its Done channel is asked for (speciate polls once per organism).
type pollCtx struct {
	context.Context
	left   *int
	closed chan struct{}
}

func (c pollCtx) Done() <-chan struct{} {
	if *c.left <= 0 {
		return c.closed
	}
	*c.left--
	return c.Context.Done()
}

func (c pollCtx) Err() error {
	if *c.left <= 0 {
		return context.Canceled
	}
	return c.Context.Err()
}

func GenC08Direct() *rapid.Generator[C08Direct] {
	return rapid.Custom(func(t *rapid.T) C08Direct {
		n := rapid.IntRange(3, pick(12, 20)).Draw(t, "members")
		c := C08Direct{Family: drawFamily(t, n, pick(14, 24)), Fast: rapid.Bool().Draw(t, "fast"),
			Excess: rapid.Float64Range(0.1, 3).Draw(t, "excess"), Disjoint: rapid.Float64Range(0.1, 3).Draw(t, "disjoint"),
			Mutdiff: rapid.SampledFrom([]float64{0, 0.4, 1, 3}).Draw(t, "mutdiff")}
		for _, s := range c.Family {
			if err := SpecWellFormed(s); err != nil {
				panic("generator bug: " + err.Error())
			}
		}
		if c.Exact = rapid.IntRange(0, 3).Draw(t, "exact") == 0; c.Exact {
			c.Excess = rapid.SampledFrom([]float64{0.5, 1, 2, 3}).Draw(t, "excess exact")
			c.Disjoint = rapid.SampledFrom([]float64{0.5, 1, 2, 3}).Draw(t, "disjoint exact")
			c.Mutdiff = 0
		}
		m := rapid.IntRange(2, 2*n).Draw(t, "arrivals")
		for i := 0; i < m; i++ {
			c.Order = append(c.Order, rapid.IntRange(0, n-1).Draw(t, "arrival"))
		}
		left := m
		for left > 0 {
			b := rapid.IntRange(1, left).Draw(t, "batch")
			c.Batches = append(c.Batches, b)
			left -= b
			r := -1
			if len(c.Batches) > 1 && rapid.IntRange(0, 2).Draw(t, "extinction") == 0 {
				r = rapid.IntRange(0, 50).Draw(t, "extinct species")
			}
			c.Remove = append(c.Remove, r)
		}
		// threshold between two adjacent values of the observed pairwise distances (or outside all of them)
		var ds []float64
		for i := range c.Family {
			for j := range c.Family {
				if i < j {
					ds = append(ds, RefCompat(specInnovMuts(c.Family[i]), specInnovMuts(c.Family[j]), c.Excess, c.Disjoint, c.Mutdiff))
				}
			}
		}
		sort.Float64s(ds)
		k := rapid.IntRange(-1, len(ds)-1).Draw(t, "threshold slot")
		switch {
		case k < 0:
			c.Thr = ds[0]/2 + 1e-3
		case k == len(ds)-1:
			c.Thr = ds[k] + 1
		default:
			c.Thr = (ds[k] + ds[k+1]) / 2
		}
		if c.Exact && k >= 0 {
			c.Thr = ds[k] // decisions exactly at the threshold
		}
		if rapid.IntRange(0, 3).Draw(t, "cancellations") == 0 {
			for _, b := range c.Batches {
				at := -1
				if b > 1 && rapid.Bool().Draw(t, "cancel this call") {
					at = rapid.IntRange(1, b-1).Draw(t, "cancel after")
				}
				c.CancelAt = append(c.CancelAt, at)
			}
		}
		if len(c.Batches) > 1 && rapid.IntRange(0, 2).Draw(t, "adaptive threshold") == 0 {
			for range c.Batches {
				bt := 0.0
				if rapid.Bool().Draw(t, "other threshold") {
					k2 := rapid.IntRange(0, len(ds)-1).Draw(t, "batch threshold slot")
					bt = ds[k2]
					if !c.Exact && k2+1 < len(ds) {
						bt = (ds[k2] + ds[k2+1]) / 2
					}
					if bt <= 0 {
						bt = 1e-3
					}
				}
				c.BatchThr = append(c.BatchThr, bt)
			}
		}
		if c.Thr <= 0 {
			c.Thr = 1e-3
		}
		if rapid.IntRange(0, 2).Draw(t, "evaluated arrivals") == 0 {
			for range c.Order {
				c.Fit = append(c.Fit, float64(rapid.IntRange(0, 9).Draw(t, "fitness")))
			}
		}
		return c
	})
}

func CheckC08Direct(c C08Direct, rec *Rec) error {
	o := defaultOpts()
	o.ExcessCoeff, o.DisjointCoeff, o.MutdiffCoeff, o.CompatThreshold, o.FastCompat = c.Excess, c.Disjoint, c.Mutdiff, c.Thr, c.Fast
	opts := o.Build()
	pop := populationFor(c.Family...)
	var arrivals []*genetics.Organism
	for i, idx := range c.Order {
		s := c.Family[idx]
		s.Id = i
		org, _ := genetics.NewOrganism(0, s.Build(), 1)
		if i < len(c.Fit) {
			org.Fitness = c.Fit[i]
		}
		arrivals = append(arrivals, org)
	}
	if len(c.Fit) > 0 {
		rec.Class("arrivals carry fitness values")
	}
	at := 0
	removed := map[int][]*genetics.Species{}
	var thrs []float64
	gone := 0
	for bi, b := range c.Batches {
		if bi < len(c.Remove) && c.Remove[bi] >= 0 && len(pop.Species) >= 2 {
			// a species goes extinct: it leaves the species list and its organisms leave the population
			dead := pop.Species[c.Remove[bi]%len(pop.Species)]
			var keepS []*genetics.Species
			for _, sp := range pop.Species {
				if sp != dead {
					keepS = append(keepS, sp)
				}
			}
			var keepO []*genetics.Organism
			for _, o := range pop.Organisms {
				if o.Species != dead {
					keepO = append(keepO, o)
				} else {
					gone++
				}
			}
			pop.Species, pop.Organisms = keepS, keepO
			removed[at] = append(removed[at], dead)
		}
		batch := arrivals[at : at+b]
		callOpts := opts
		thrNow := c.Thr
		if bi < len(c.BatchThr) && c.BatchThr[bi] > 0 {
			// another options object for this call, as a caller with an adaptive threshold would pass
			o2 := o
			o2.CompatThreshold = c.BatchThr[bi]
			callOpts, thrNow = o2.Build(), c.BatchThr[bi]
			rec.Class("batch speciated under another threshold")
		}
		for range batch {
			thrs = append(thrs, thrNow)
		}
		at += b
		pop.VerifAddOrganisms(batch)
		if bi < len(c.CancelAt) && c.CancelAt[bi] > 0 && c.CancelAt[bi] < len(batch) {
			// the call is cancelled after some organisms; the rest goes to a further call with a live context
			left := c.CancelAt[bi]
			closed := make(chan struct{})
			close(closed)
			err := pop.VerifSpeciate(pollCtx{Context: callOpts.NeatContext(), left: &left, closed: closed}, batch)
			if err != nil && !errors.Is(err, context.Canceled) {
				return fmt.Errorf("speciate with a context cancelled after %d of %d organisms returned %v", c.CancelAt[bi], len(batch), err)
			}
			// how often the library looks at the context is its own business: the organisms it did assign before it gave
			// up are taken as they are (they must be the first ones of the batch, in order), the others go to a further call
			done := 0
			for done < len(batch) && batch[done].Species != nil {
				done++
			}
			for _, o := range batch[done:] {
				if o.Species != nil {
					rec.Class("cancelled speciation call assigned organisms out of order (arrival order unknown: case not judged)")
					return nil
				}
			}
			if err != nil {
				rec.Class("speciation call cancelled half way, remainder speciated by a further call")
			}
			batch = batch[done:]
		}
		if err := pop.VerifSpeciate(callOpts.NeatContext(), batch); err != nil {
			return fmt.Errorf("speciate returned error: %v", err)
		}
	}
	if c.Fast {
		rec.Class("method:fast")
	} else {
		rec.Class("method:linear")
	}
	if len(c.Batches) > 1 {
		rec.Class("several batches")
	}
	if c.Exact {
		rec.Class("exact distances")
	}
	if err := replaySpeciationThr(nil, math.MinInt64, arrivals, removed, c.Exact, thrs, c.Thr, c.Excess, c.Disjoint, c.Mutdiff, rec); err != nil {
		return err
	}
	if len(pop.Species) > 1 {
		rec.Class("several species")
	}
	return checkPartition(pop, len(arrivals)-gone)
}

func TestC08Direct(t *testing.T) {
	runProp(t, "C08", "direct", 2500, 50000, GenC08Direct(), CheckC08Direct)
}

/* (b) the public constructors, (c) the "consequently" clause after every turnover */

func CheckC08Epochs(sc Scenario, rec *Rec) error {
	var opts *neat.Options
	reps := map[*genetics.Species][]innovMut{}
	everSeen := map[int]bool{}
	return runScenario(sc, epochHooks{
		built: func(pop *genetics.Population, o *neat.Options) error {
			opts = o
			for _, sp := range pop.Species {
				everSeen[sp.Id] = true
			}
			// arrival order of a constructor is the order of pop.Organisms, all species are new
			return replaySpeciation(pop.Organisms, o.CompatThreshold, o.ExcessCoeff, o.DisjointCoeff, o.MutdiffCoeff, rec)
		},
		switched: func(o *neat.Options) { opts = o },
		before: func(e int, pop *genetics.Population) error {
			// the representative during the coming speciation is the species' fittest member (fitness values are distinct)
			reps = map[*genetics.Species][]innovMut{}
			for _, sp := range pop.Species {
				var best *genetics.Organism
				for _, o := range sp.Organisms {
					if best == nil || o.Fitness > best.Fitness {
						best = o
					}
				}
				reps[sp] = innovMutsOf(best.Genotype)
			}
			return nil
		},
		after: func(e int, pop *genetics.Population) error {
			thr := opts.CompatThreshold
			// a species founded in this turnover carries a fresh id
			living := map[int]bool{}
			for _, sp := range pop.Species {
				if living[sp.Id] {
					return fmt.Errorf("two living species carry the id %d", sp.Id)
				}
				living[sp.Id] = true
				if _, survived := reps[sp]; !survived && everSeen[sp.Id] {
					return fmt.Errorf("the species founded in this turnover received the id %d, which was issued before", sp.Id)
				}
			}
			for id := range living {
				everSeen[id] = true
			}
			if len(reps) > 0 {
				extinct := 0
				for sp := range reps {
					if !living[sp.Id] {
						extinct++
					}
				}
				if extinct > 0 && len(living) > len(reps)-extinct {
					rec.Class("species founded in a turnover in which another went extinct")
				}
			}
			for i, o := range pop.Organisms {
				sp := o.Species
				rep, survived := reps[sp]
				if !survived {
					if sp.Organisms[0] == o {
						rec.Class("founder of a species founded in this turnover")
						continue
					}
					rep = innovMutsOf(sp.Organisms[0].Genotype)
				}
				d := RefCompat(innovMutsOf(o.Genotype), rep, opts.ExcessCoeff, opts.DisjointCoeff, opts.MutdiffCoeff)
				if !(d < thr+distTol(d)) {
					return fmt.Errorf("organism %d belongs to species %d (survived: %v) but is at distance %v from its representative, threshold %v", i, sp.Id, survived, d, thr)
				}
				if survived {
					rec.Class("member of a surviving species")
				} else {
					rec.Class("member of a new species")
				}
				// closest among the compatible ones: every species that existed before the turnover and still exists was a
				// candidate when this organism arrived (species objects are only ever removed), with its old champion as
				// representative; none of them may be robustly compatible and robustly closer than the species chosen
				genes := innovMutsOf(o.Genotype)
				for _, other := range pop.Species {
					otherRep, old := reps[other]
					if !old || other == sp {
						continue
					}
					dT := RefCompat(genes, otherRep, opts.ExcessCoeff, opts.DisjointCoeff, opts.MutdiffCoeff)
					if dT < thr-distTol(dT) && dT < d-2*distTol(d) {
						return fmt.Errorf("organism %d was put into species %d at distance %v although the representative of species %d, which existed throughout the turnover, is closer (%v) and within the threshold %v",
							i, sp.Id, d, other.Id, dT, thr)
					}
					if dT < thr-distTol(dT) {
						rec.Class("another pre-existing species was compatible too")
					}
				}
			}
			if len(pop.Species) > 1 {
				rec.NonTrivial(hashOf(e, len(pop.Species), len(pop.Organisms)))
			}
			return nil
		},
	}, rec)
}

/* (d) one turnover taken apart through the phase hooks: after the executor's own preparation phase the living species and
   their representatives are known, the babies are produced species by species exactly as the sequential executor does and
   speciated in that order; the complete rule is then replayed with the reference distance. This is where species with a zero
   quota (delta coding with three or more species) are still alive while the babies arrive. */

func CheckC08Stepwise(sc Scenario, rec *Rec) error {
	opts := sc.Opts.Build()
	pop, err := buildPopulation(sc, opts)
	if err == errSkipScenario {
		rec.Class("skipped: constructor outside the domain (gene-less random genome / failing turnover before the checkpoint)")
		return nil
	}
	if err != nil {
		return err
	}
	ctx := opts.NeatContext()
	exec := &genetics.SequentialPopulationEpochExecutor{}
	assign := func(e int) {
		n := len(pop.Organisms)
		for i, o := range pop.Organisms {
			o.Fitness = fitnessOf(sc.Fit, e, i, n, o.Genotype)
			if sc.Winners > 0 {
				o.IsWinner = int(unitHash(sc.Fit.Salt, int64(e), int64(i), 77)*1000)%sc.Winners == 0
			}
		}
	}
	for e := 0; e < sc.Epochs-1; e++ {
		if sc.Switch != nil && e == sc.Switch.At {
			opts = sc.Switch.Opts.Build()
			ctx = opts.NeatContext()
		}
		assign(e)
		if err := exec.NextEpoch(ctx, e, pop); err != nil {
			rec.Class("history ended by a failing turnover (outside this property, see C02)")
			return nil
		}
	}
	gen := sc.Epochs - 1
	if sc.Switch != nil && gen == sc.Switch.At {
		opts = sc.Switch.Opts.Build()
		ctx = opts.NeatContext()
	}
	if sc.Switch != nil && sc.Switch.At <= gen {
		rec.Class("options object replaced during the history")
	}
	assign(gen)
	if err := exec.VerifPrepare(ctx, gen, pop); err != nil {
		rec.Class("history ended by a failing turnover (outside this property, see C02)")
		return nil
	}
	var initial []modelSpecies
	zeroQuota := 0
	for _, sp := range pop.Species {
		if len(sp.Organisms) == 0 {
			return fmt.Errorf("harness: species %d has no organisms after the preparation phase", sp.Id)
		}
		initial = append(initial, modelSpecies{sp: sp, rep: innovMutsOf(sp.Organisms[0].Genotype)})
		if sp.ExpectedOffspring == 0 {
			zeroQuota++
		}
	}
	lastIssued := pop.LastSpecies
	sorted := exec.VerifSortedSpecies()
	var babies []*genetics.Organism
	for _, sp := range append([]*genetics.Species(nil), pop.Species...) {
		b, err := sp.VerifReproduce(ctx, gen, pop, sorted)
		if err != nil {
			rec.Class("history ended by a failing turnover (outside this property, see C02)")
			return nil
		}
		babies = append(babies, b...)
	}
	if len(babies) == 0 {
		return nil
	}
	if err := pop.VerifSpeciate(ctx, babies); err != nil {
		return fmt.Errorf("speciate returned error: %v", err)
	}
	rec.Class("constructor:" + sc.Ctor)
	if len(initial) >= 2 {
		rec.Class("babies arrive while several species are alive")
	}
	if zeroQuota > 0 {
		rec.Class("a species with a zero quota is alive while the babies arrive")
	}
	return replaySpeciationFrom(initial, lastIssued, babies, nil, false, opts.CompatThreshold, opts.ExcessCoeff, opts.DisjointCoeff, opts.MutdiffCoeff, rec)
}

func TestC08Stepwise(t *testing.T) {
	gen := genScenario(ScenarioCfg{MaxEpochs: pick(20, 40), FitnessKinds: []string{"distinct", "stagnating", "stagnating", "uniform", "heavy"}, Parallel: 0, MinPop: 6})
	runProp(t, "C08", "stepwise", 300, 6000, rapid.Map(gen, func(sc Scenario) Scenario {
		if sc.Opts.DropOffAge > 6 {
			sc.Opts.DropOffAge = 1 + sc.Opts.DropOffAge%6 // population-level stagnation (delta coding) within the history
		}
		return sc
	}), CheckC08Stepwise)
}

func TestC08Epochs(t *testing.T) {
	runProp(t, "C08", "epochs", 300, 6000, genScenario(ScenarioCfg{MaxEpochs: pick(12, 30), FitnessKinds: []string{"distinct", "distinct", "stagnating"}, Parallel: 1, Warm: true}), CheckC08Epochs)
}

func init() {
	registerReplay("C08", "direct", CheckC08Direct)
	registerReplay("C08", "epochs", CheckC08Epochs)
	registerReplay("C08", "stepwise", CheckC08Stepwise)
}
