package props

import (
	"context"
	"fmt"
	"math"
	"sort"
	"testing"

	"github.com/yaricom/goNEAT/v4/neat"
	"github.com/yaricom/goNEAT/v4/neat/genetics"
	"pgregory.net/rapid"
)

/* C09 - offspring quotas follow shared fitness and total the population size */

type C09Case struct {
	Sc   Scenario `json:"scenario"`
	// A: adjust + apportion, B: full preparation + reproduction, C: plain NextEpoch, D: plain NextEpoch under options that make
	// every offspring an exact copy of one parent (all mutation rates zero, no mating), so that the new generation shows which
	// organisms were used as parents and how many offspring each species really produced
	Step string `json:"terminal_step"`
	// Retry: the turnover under check is first attempted under a context that ends after a few polls (survival threshold 1,
	// so that nobody is removed by the failed attempt); the organisms are then evaluated again - to other values, as a noisy
	// evaluator gives - and the terminal step judges the repeated turnover by those values
	Retry bool `json:"cancelled_attempt_then_new_evaluation,omitempty"`
}

func GenC09() *rapid.Generator[C09Case] {
	sg := genScenario(ScenarioCfg{MaxEpochs: pick(20, 45), FitnessKinds: []string{"constant", "uniform", "heavy", "dominant", "distinct", "stagnating", "sparse", "genome", "signed"},
		Parallel: 0, MinPop: 4, DupIds: true})
	return rapid.Custom(func(t *rapid.T) C09Case {
		c := C09Case{Sc: sg.Draw(t, "scenario"), Step: rapid.SampledFrom([]string{"A", "A", "B", "B", "C", "D", "D"}).Draw(t, "terminal step")}
		c.Sc.Opts.DropOffAge = rapid.IntRange(1, 8).Draw(t, "small dropoff age") // stagnation, purges and delta coding occur
		c.Sc.Epochs--                                                            // the terminal step is the last turnover
		if rapid.IntRange(0, 14).Draw(t, "one huge organism") == 3 {
			// one organism close to the largest float64 while the population total stays finite: fitness times the number of
			// organisms is not representable, fitness divided by the mean is
			c.Sc.Fit = FitnessProg{Kind: "dominant", Scale: rapid.SampledFrom([]float64{1e304, 5e304, 1e305}).Draw(t, "huge scale"), Salt: c.Sc.Fit.Salt}
			c.Sc.Opts.AgeSignificance = 1 // see the known finding on fitness times age significance
			c.Sc.Switch = nil
		}
		if c.Sc.Fit.Scale < 1e300 && rapid.IntRange(0, 11).Draw(t, "denormal fitness") == 0 {
			// fitness values at the bottom of the float64 range: the population mean of the shared fitness is a denormal
			// number (a few units of 5e-324) or underflows
			c.Sc.Fit.Scale = rapid.SampledFrom([]float64{1e-300, 1e-308, 1e-310, 1e-320, 1e-322, 5e-324}).Draw(t, "denormal fitness scale")
			c.Sc.Switch = nil
		}
		if rapid.IntRange(0, 5).Draw(t, "cancelled attempt before the terminal step") == 0 {
			c.Retry = true
			c.Sc.Opts.SurvivalThresh = 1
			if c.Sc.Switch != nil {
				c.Sc.Switch.Opts.SurvivalThresh = 1
			}
		}
		return c
	})
}

type orgPre struct {
	raw     float64
	species *genetics.Species
}

type spPre struct {
	size, age int
}

func CheckC09(c C09Case, rec *Rec) error {
	sc := c.Sc
	opts := sc.Opts.Build()
	pop, err := buildPopulation(sc, opts)
	if err == errSkipScenario {
		rec.Class("skipped: constructor outside the domain (gene-less random genome / failing turnover before the checkpoint)")
		return nil
	}
	if err != nil {
		return err
	}
	if sc.IdsMod > 0 {
		for i, o := range pop.Organisms {
			o.Genotype.Id = i % sc.IdsMod
		}
		rec.Class("organisms start with non-unique genome ids")
	}
	ctx := opts.NeatContext()
	curSpec := sc.Opts
	exec := &genetics.SequentialPopulationEpochExecutor{}
	assign := func(e int) {
		n := len(pop.Organisms)
		for i, o := range pop.Organisms {
			o.Fitness = fitnessOf(sc.Fit, e, i, n, o.Genotype)
			if sc.Winners > 0 {
				o.IsWinner = int(unitHash(sc.Fit.Salt, int64(e), int64(i), 77)*1000)%sc.Winners == 0
			}
		}
	}
	for e := 0; e < sc.Epochs; e++ {
		if sc.Switch != nil && e == sc.Switch.At {
			opts = sc.Switch.Opts.Build()
			ctx = opts.NeatContext()
			curSpec = sc.Switch.Opts
		}
		assign(e)
		if err := exec.NextEpoch(ctx, e, pop); err != nil {
			return fmt.Errorf("epoch %d: NextEpoch returned error: %v", e, err)
		}
	}
	gen := sc.Epochs
	if sc.Switch != nil && gen == sc.Switch.At {
		opts = sc.Switch.Opts.Build()
		ctx = opts.NeatContext()
		curSpec = sc.Switch.Opts
	}
	if c.Step == "D" {
		cl := curSpec
		cl.MutateOnlyProb, cl.MateOnlyProb, cl.WeightMutPower, cl.TraitMutationPower = 1, 0, 0, 0
		cl.MutateRandomTraitProb, cl.MutateLinkTraitProb, cl.MutateNodeTraitProb, cl.MutateLinkWeightsProb = 0, 0, 0, 0
		cl.MutateToggleEnableProb, cl.MutateGeneReenableProb, cl.MutateAddNodeProb, cl.MutateAddLinkProb, cl.MutateConnectSensors = 0, 0, 0, 0, 0
		opts = cl.Build()
		ctx = opts.NeatContext()
	}
	if sc.Switch != nil && sc.Switch.At <= gen {
		rec.Class("options object replaced during the history")
	}
	assign(gen)
	if c.Retry {
		n := len(pop.Organisms)
		cctx := &countdownCtx{Context: ctx, closed: closedChan}
		cctx.left.Store(int64(1 + sc.Seed%11))
		if err := exec.NextEpoch(cctx, gen, pop); err == nil {
			// the countdown did not run out: an ordinary turnover more
			gen++
			assign(gen)
		} else {
			if len(pop.Organisms) != n || checkPartition(pop, n) != nil {
				rec.Class("history ended: population not complete after a cancelled turnover")
				return nil
			}
			assign(gen + 1000) // evaluated again, other values
			rec.Class("turnover repeated after a cancelled attempt and a new evaluation")
		}
	}
	popSize := opts.PopSize
	// snapshot of the generation that is about to be turned over
	orgs := append([]*genetics.Organism(nil), pop.Organisms...)
	pre := map[*genetics.Organism]orgPre{}
	anyPositive := false
	for _, o := range orgs {
		pre[o] = orgPre{raw: o.Fitness, species: o.Species}
		anyPositive = anyPositive || o.Fitness > 0
	}
	species := append([]*genetics.Species(nil), pop.Species...)
	sps := map[*genetics.Species]spPre{}
	sizes, ages := map[int]bool{}, map[int]bool{}
	for _, sp := range species {
		sps[sp] = spPre{size: len(sp.Organisms), age: sp.Age}
		sizes[len(sp.Organisms)] = true
		ages[sp.Age] = true
	}
	rec.Class("terminal step " + c.Step)
	rec.Class("fitness:" + sc.Fit.Kind)
	if !anyPositive {
		rec.Class("skipped: no positive fitness value (outside the quantifier)")
		return nil
	}
	if len(species) >= 2 && (len(sizes) > 1 || len(ages) > 1) {
		rec.NonTrivial(hashOf(c.Step, gen, len(species), len(sizes), len(ages), popSize, sc.Opts.BabiesStolen))
	}
	if len(species) >= 2 {
		rec.Class("several species")
	}

	switch c.Step {
	case "A":
		for _, sp := range species {
			sp.VerifAdjustFitness(opts)
		}
		if err := checkSharedFitness(orgs, pre, sps, opts, rec); err != nil {
			return err
		}
		if err := checkParentSelection(species, pre, opts, nil, rec); err != nil {
			return err
		}
		pop.VerifPurgeZeroOffspringSpecies(gen)
		return checkApportionment(pop, orgs, species, pre, popSize, rec)
	case "B":
		if err := exec.VerifPrepare(ctx, gen, pop); err != nil {
			return fmt.Errorf("preparation phase returned error: %v", err)
		}
		// the executor's own preparation: fitness shared and adjusted once, expected offspring from the adjusted values
		if err := checkSharedFitness(orgs, pre, sps, opts, rec); err != nil {
			return fmt.Errorf("after the executor's preparation phase: %v", err)
		}
		if err := checkExpectedOffspring(orgs, rec); err != nil {
			return fmt.Errorf("after the executor's preparation phase: %v", err)
		}
		total := 0
		for _, sp := range pop.Species {
			if sp.ExpectedOffspring < 0 {
				return fmt.Errorf("species %d has the negative quota %d", sp.Id, sp.ExpectedOffspring)
			}
			total += sp.ExpectedOffspring
		}
		if total != popSize {
			return fmt.Errorf("after the preparation phase (stealing / delta coding included) the quotas total %d, population size is %d", total, popSize)
		}
		kept := map[*genetics.Organism]bool{}
		for _, sp := range pop.Species {
			for _, o := range sp.Organisms {
				kept[o] = true
			}
		}
		if err := checkParentSelection(pop.Species, pre, opts, kept, rec); err != nil {
			return err
		}
		sorted := exec.VerifSortedSpecies()
		stolen := false
		for _, sp := range pop.Species {
			babies, err := sp.VerifReproduce(ctx, gen, pop, sorted)
			if err != nil {
				return fmt.Errorf("species %d: reproduce returned error: %v", sp.Id, err)
			}
			if len(babies) != sp.ExpectedOffspring {
				return fmt.Errorf("species %d has a quota of %d but produced %d offspring", sp.Id, sp.ExpectedOffspring, len(babies))
			}
			if sp.ExpectedOffspring == 0 {
				rec.Class("species with a zero quota did not reproduce")
			}
			stolen = stolen || sp.ExpectedOffspring > sps[sp].size*3
		}
		if sc.Opts.BabiesStolen > 0 {
			rec.Class("babies stolen configured")
		}
		return nil
	case "D":
		return checkCloneTurnover(exec, ctx, gen, pop, orgs, species, pre, opts, popSize, rec)
	default:
		if err := exec.NextEpoch(ctx, gen, pop); err != nil {
			return fmt.Errorf("NextEpoch returned error: %v", err)
		}
		total := 0
		for _, sp := range species {
			total += sp.ExpectedOffspring
		}
		if total != popSize {
			return fmt.Errorf("the quotas of the old generation's species total %d after the turnover, population size is %d", total, popSize)
		}
		if err := checkSharedFitness(orgs, pre, sps, opts, rec); err != nil {
			return fmt.Errorf("on the old generation after the turnover: %v", err)
		}
		return checkExpectedOffspring(orgs, rec)
	}
}

// checkCloneTurnover: a complete turnover under options that make every offspring an exact copy of one organism of its species'
// parent pool. When no genome of the old generation occurs in two species, every new organism names the species that produced
// it: each species must have produced exactly its quota, and only from its top floor(survival_thresh*n)+1 members.
func checkCloneTurnover(exec *genetics.SequentialPopulationEpochExecutor, ctx context.Context, gen int, pop *genetics.Population, orgs []*genetics.Organism,
	species []*genetics.Species, pre map[*genetics.Organism]orgPre, opts *neat.Options, popSize int, rec *Rec) error {
	keyOf := func(g *genetics.Genome) string {
		sp := Snapshot(g)
		sp.Id = 0
		// mutation numbers are not part of the identity: a super-champion offspring is sent through the weight mutation with
		// power 0, which leaves the weights and rewrites the mutation numbers to mirror them, so it can equal - up to those
		// numbers - an old organism made the same way one generation earlier (found by the thorough tier and, independently,
		// by the audit: the offspring was attributed to that old organism)
		for i := range sp.Genes {
			sp.Genes[i].Mut = 0
		}
		for i := range sp.Modules {
			sp.Modules[i].Mut = 0
		}
		return fmt.Sprintf("%+v", sp)
	}
	owner := map[string]*genetics.Species{}
	best := map[string]float64{} // the largest raw fitness among the old organisms that carry this genome
	ambiguous := false
	for _, o := range orgs {
		k := keyOf(o.Genotype)
		if sp, ok := owner[k]; ok && sp != pre[o].species {
			ambiguous = true
		}
		owner[k] = pre[o].species
		if f, ok := best[k]; !ok || pre[o].raw > f {
			best[k] = pre[o].raw
		}
	}
	if err := exec.NextEpoch(ctx, gen, pop); err != nil {
		return fmt.Errorf("NextEpoch returned error: %v", err)
	}
	if ambiguous {
		rec.Class("clone turnover: one genome in two species (offspring can not be attributed, not judged)")
		return nil
	}
	produced := map[*genetics.Species]int{}
	total := 0
	for _, sp := range species {
		total += sp.ExpectedOffspring
	}
	if total != popSize {
		return fmt.Errorf("the quotas of the old generation's species total %d after the turnover, population size is %d", total, popSize)
	}
	// the parent cut-off of every species, by raw fitness (ties admitted); not judged where the adjustment changes the order
	cut := map[*genetics.Species]float64{}
	members := map[*genetics.Species][]float64{}
	judgeCut := map[*genetics.Species]bool{}
	for _, o := range orgs {
		members[pre[o].species] = append(members[pre[o].species], pre[o].raw)
	}
	for sp, fs := range members {
		sort.Sort(sort.Reverse(sort.Float64Slice(fs)))
		k := int(math.Floor(opts.SurvivalThresh*float64(len(fs)) + 1.0))
		if k > len(fs) {
			k = len(fs)
		}
		cut[sp] = fs[k-1]
		judgeCut[sp] = fs[len(fs)-1] >= 0 && (fs[len(fs)-1] == 0 || fs[len(fs)-1] > 1e-290)
		for _, f := range fs {
			judgeCut[sp] = judgeCut[sp] && (f == 0 || f > 1e-290)
		}
	}
	for i, b := range pop.Organisms {
		k := keyOf(b.Genotype)
		sp, ok := owner[k]
		if !ok {
			rec.Class("clone turnover: an offspring is not a copy of an old organism (left to C05/C06, not judged)")
			return nil
		}
		produced[sp]++
		// robustly below the cut-off only: values within rounding of each other can become equal in the adjustment (a tie)
		if judgeCut[sp] && best[k] < cut[sp]-1e-9*math.Abs(cut[sp]) {
			return fmt.Errorf("new organism %d is a copy of a member of species %d whose fitness %v is below that of the species' top floor(%v*%d)+1 members (%v): it was not available as a parent",
				i, sp.Id, best[k], opts.SurvivalThresh, len(members[sp]), cut[sp])
		}
	}
	for _, sp := range species {
		if produced[sp] != sp.ExpectedOffspring {
			return fmt.Errorf("species %d has a quota of %d, but %d organisms of the new generation are copies of its members (every offspring is an exact copy of its parent under these options)",
				sp.Id, sp.ExpectedOffspring, produced[sp])
		}
		if sp.ExpectedOffspring == 0 {
			rec.Class("species with a zero quota did not reproduce")
		}
	}
	rec.Class("clone turnover: offspring attributed to the species that produced them")
	return nil
}

// checkExpectedOffspring: expected offspring == adjusted fitness / population mean of the adjusted fitness.
func checkExpectedOffspring(orgs []*genetics.Organism, rec *Rec) error {
	sum := 0.0
	for _, o := range orgs {
		sum += o.Fitness
	}
	scale := 1.0
	if sum/float64(len(orgs)) < 0x1p-900 {
		// the mean would keep only a few bits (or underflow): form the quotient from values scaled by a power of two, which
		// is exact and changes no ratio
		scale = 0x1p900
		sum = 0
		for _, o := range orgs {
			sum += o.Fitness * scale
		}
		rec.Class("mean adjusted fitness below 2^-900 (quotients formed from scaled values)")
	}
	mean := sum / float64(len(orgs))
	if mean == 0 {
		rec.Class("mean adjusted fitness is zero")
		return nil
	}
	for i, o := range orgs {
		want := o.Fitness * scale / mean
		if !approxEq(o.ExpectedOffspring, want, 1e-9) {
			return fmt.Errorf("organism %d expects %v offspring; its adjusted fitness %v divided by the population mean %v is %v", i, o.ExpectedOffspring, o.Fitness, mean, want)
		}
	}
	return nil
}

// checkSharedFitness: after the adjustment every member's fitness is raw * c / size with one species-wide factor c
// that is a product of the documented stagnation penalty (0.01) and youth boost (age significance).
func checkSharedFitness(orgs []*genetics.Organism, pre map[*genetics.Organism]orgPre, sps map[*genetics.Species]spPre, opts *neat.Options, rec *Rec) error {
	factor := map[*genetics.Species]float64{}
	allowed := []float64{1, 0.01, opts.AgeSignificance, 0.01 * opts.AgeSignificance}
	for i, o := range orgs {
		p := pre[o]
		if o.VerifOriginalFitness() != p.raw {
			return fmt.Errorf("organism %d: the remembered original fitness is %v, it was evaluated to %v", i, o.VerifOriginalFitness(), p.raw)
		}
		if p.raw < 0 {
			// the statement does not say what a negative value is adjusted to (the library substitutes a small positive constant);
			// whatever it is, the expected offspring, the quotas and their total are judged from it like from any other value
			rec.Class("organism with a negative raw fitness")
			continue
		}
		if p.raw == 0 {
			if o.Fitness != 0 {
				return fmt.Errorf("organism %d had fitness 0 and has the adjusted fitness %v", i, o.Fitness)
			}
			continue
		}
		if math.Abs(o.Fitness) < 1e-300 {
			// at the bottom of the range the adjusted value is a rounded multiple of 5e-324: the factor can not be read off it
			rec.Class("adjusted fitness below 1e-300 (factor not read off)")
			continue
		}
		c := o.Fitness * float64(sps[p.species].size) / p.raw
		if prev, ok := factor[p.species]; ok {
			if !approxEq(prev, c, 1e-9) {
				return fmt.Errorf("species %d: the adjustment factor differs between members (%v vs %v)", p.species.Id, prev, c)
			}
			continue
		}
		factor[p.species] = c
		ok := false
		for _, a := range allowed {
			ok = ok || approxEq(a, c, 1e-9)
		}
		if !ok {
			return fmt.Errorf("species %d (size %d, age %d): adjusted fitness %v is raw fitness %v times %v divided by the size; the factor is not a product of the stagnation penalty 0.01 and the age significance %v (fitness sharing missing?)",
				p.species.Id, sps[p.species].size, sps[p.species].age, o.Fitness, p.raw, c, opts.AgeSignificance)
		}
		if approxEq(c, 0.01, 1e-9) || (opts.AgeSignificance != 1 && approxEq(c, 0.01*opts.AgeSignificance, 1e-9)) {
			rec.Class("stagnation penalty active")
		}
		if opts.AgeSignificance != 1 && (approxEq(c, opts.AgeSignificance, 1e-9) || approxEq(c, 0.01*opts.AgeSignificance, 1e-9)) {
			rec.Class("youth boost active")
		}
	}
	return nil
}

// checkParentSelection: only the top floor(survival_thresh*n)+1 organisms of a species by fitness remain parents.
// kept == nil: judge the elimination flags; otherwise judge membership in the species lists after the purge.
func checkParentSelection(species []*genetics.Species, pre map[*genetics.Organism]orgPre, opts *neat.Options, kept map[*genetics.Organism]bool, rec *Rec) error {
	members := map[*genetics.Species][]*genetics.Organism{}
	for o, p := range pre {
		members[p.species] = append(members[p.species], o)
	}
	for _, sp := range species {
		all := members[sp]
		n := len(all)
		want := int(math.Floor(opts.SurvivalThresh*float64(n) + 1.0))
		if want > n {
			want = n
		}
		var parents, rest []float64
		negative, hasNeg := false, false
		for _, o := range all {
			hasNeg = hasNeg || pre[o].raw < 0
			// (values at the bottom of the range lose their order in the adjustment - several of them round to the same multiple of
			// 5e-324 - and are judged by the adjusted values as well)
			negative = negative || pre[o].raw < 0 || (pre[o].raw != 0 && pre[o].raw < 1e-290)
		}
		for _, o := range all {
			isParent := !o.VerifToEliminate()
			if kept != nil {
				isParent = kept[o]
			}
			// the ranking the library can be held to is the one by the adjusted values: the adjustment multiplies by one species-wide
			// positive factor, so both rankings agree except where it makes values equal - raw values one ulp apart that round to
			// the same product (found by the thorough tier: 0.04012037119535667 / ...668), values at the bottom of the range,
			// negative values, which are all replaced by one constant - and a tie admits either organism
			f := o.Fitness
			_ = negative
			if isParent {
				parents = append(parents, f)
			} else {
				rest = append(rest, f)
			}
		}
		if len(parents) != want {
			return fmt.Errorf("species %d of size %d keeps %d parents, floor(%v*%d)+1 = %d", sp.Id, n, len(parents), opts.SurvivalThresh, n, want)
		}
		sort.Float64s(parents)
		sort.Float64s(rest)
		if hasNeg {
			// the statement does not say how a negative value ranks against a small positive one (by the raw value, or by what the
			// adjustment makes of it): with a negative member only the number of parents is judged
			rec.Class("species with a negative member (parent ranking not judged)")
		} else if len(rest) > 0 && parents[0] < rest[len(rest)-1] {
			return fmt.Errorf("species %d: an organism of fitness %v was kept as a parent while one of fitness %v was not", sp.Id, parents[0], rest[len(rest)-1])
		}
		if len(rest) > 0 {
			rec.Class("species that loses members before reproduction")
		}
		if want == n && n > 1 {
			rec.Class("survival threshold keeps the whole species")
		}
	}
	return nil
}

// checkApportionment: quotas against the members' expected offspring (bounds, not a re-implementation of the carry).
func checkApportionment(pop *genetics.Population, orgs []*genetics.Organism, species []*genetics.Species, pre map[*genetics.Organism]orgPre, popSize int, rec *Rec) error {
	if err := checkExpectedOffspring(orgs, rec); err != nil {
		return err
	}
	adjustedTotal := 0.0
	for _, o := range orgs {
		adjustedTotal += o.Fitness * 0x1p900
	}
	if adjustedTotal == 0 {
		// every adjusted value has underflown to zero: there is no mean to divide by and the statement defines no shares;
		// what remains is that the quotas total the population size
		rec.Class("every adjusted fitness is zero (only the total of the quotas is judged)")
		total := 0
		for _, sp := range species {
			total += sp.ExpectedOffspring
		}
		if total != popSize {
			return fmt.Errorf("the quotas total %d, population size is %d (every adjusted fitness is zero)", total, popSize)
		}
		return nil
	}
	sums := map[*genetics.Species]float64{}
	for _, o := range orgs {
		sums[pre[o].species] += o.ExpectedOffspring
	}
	total, over := 0, 0
	alive := map[*genetics.Species]bool{}
	for _, sp := range pop.Species {
		alive[sp] = true
	}
	for _, sp := range species {
		q, s := float64(sp.ExpectedOffspring), sums[sp]
		total += sp.ExpectedOffspring
		slack := 1e-9 * (1 + s)
		if q <= s-1-slack {
			return fmt.Errorf("species %d has quota %v, its members expect %v offspring in total (more than one lost)", sp.Id, q, s)
		}
		if q >= s+1+slack {
			over++
			if q >= s+2+slack {
				return fmt.Errorf("species %d has quota %v, its members expect only %v offspring in total", sp.Id, q, s)
			}
		}
		if sp.ExpectedOffspring == 0 && alive[sp] {
			return fmt.Errorf("species %d has a zero quota but is still part of the population", sp.Id)
		}
		if sp.ExpectedOffspring > 0 && !alive[sp] {
			return fmt.Errorf("species %d has the quota %d but was removed from the population", sp.Id, sp.ExpectedOffspring)
		}
		if sp.ExpectedOffspring == 0 {
			rec.Class("species purged for a zero quota")
		}
	}
	if over > 1 {
		return fmt.Errorf("%d species exceed the sum of their members' expected offspring by one or more (only one make-up offspring exists)", over)
	}
	if over == 1 {
		rec.Class("make-up offspring applied")
	}
	if total != popSize {
		return fmt.Errorf("the quotas total %d, population size is %d", total, popSize)
	}
	return nil
}

func TestC09(t *testing.T) {
	runProp(t, "C09", "stepwise", 500, 10000, GenC09(), CheckC09)
}

func init() { registerReplay("C09", "stepwise", CheckC09) }
