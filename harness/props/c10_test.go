package props

import (
	"fmt"
	"testing"

	"github.com/yaricom/goNEAT/v4/neat/genetics"
)

/* C10 - the champion of every sizeable species survives the epoch unchanged */

type champInfo struct {
	snap     GenomeSpec
	fitness  float64
	disabled int
	rec      int
}

// championTracker remembers, before a turnover, the fittest organism of every species.
type championTracker struct {
	champs     map[*genetics.Species]champInfo
	order      []*genetics.Species
	preHighest float64
}

func (c *championTracker) snapshot(pop *genetics.Population) {
	c.champs = map[*genetics.Species]champInfo{}
	c.order = nil
	c.preHighest = pop.HighestFitness
	for _, sp := range pop.Species {
		var best *genetics.Organism
		for _, o := range sp.Organisms {
			if best == nil || o.Fitness > best.Fitness {
				best = o
			}
		}
		if best == nil {
			continue
		}
		s := Snapshot(best.Genotype)
		d, r, _ := specFeatures(s)
		c.champs[sp] = champInfo{snap: s, fitness: best.Fitness, disabled: d, rec: r}
		c.order = append(c.order, sp)
	}
}

func (c *championTracker) check(e int, pop *genetics.Population, stolen int, rec *Rec) error {
	var next []GenomeSpec
	deltaCoded := pop.EpochsHighestLastChanged == 0 && pop.HighestFitness == c.preHighest && e > 0
	for _, sp := range c.order {
		quota := sp.ExpectedOffspring
		if quota <= 5 {
			continue
		}
		info := c.champs[sp]
		if next == nil {
			for _, o := range pop.Organisms {
				next = append(next, Snapshot(o.Genotype))
			}
		}
		found := false
		for _, s := range next {
			if len(s.Genes) == len(info.snap.Genes) && len(s.Nodes) == len(info.snap.Nodes) && DiffSpec(info.snap, s) == "" {
				found = true
				break
			}
		}
		if !found {
			return fmt.Errorf("species %d had an offspring quota of %d but the next generation contains no unmodified copy of its champion (fitness %v, %d genes of which %d disabled): %s",
				sp.Id, quota, info.fitness, len(info.snap.Genes), info.disabled, jsonStr(info.snap))
		}
		rec.Class("species with quota > 5")
		if quota == 6 {
			rec.Class("quota exactly 6")
		}
		if info.rec > 0 {
			rec.Class("champion with recurrent genes")
		}
		if deltaCoded {
			rec.Class("quota set by delta coding")
		}
		if stolen > 0 {
			rec.Class("babies stolen configured")
		}
		if info.disabled > 0 {
			rec.Class("champion with disabled genes")
			rec.NonTrivial(hashOf(e, sp.Id, quota, len(info.snap.Genes), info.disabled, info.rec))
		}
	}
	return nil
}

func CheckC10(sc Scenario, rec *Rec) error {
	tr := &championTracker{}
	return runScenario(sc, epochHooks{
		before: func(e int, pop *genetics.Population) error { tr.snapshot(pop); return nil },
		after:  func(e int, pop *genetics.Population) error { return tr.check(e, pop, sc.Opts.BabiesStolen, rec) },
	}, rec)
}

func TestC10(t *testing.T) {
	runProp(t, "C10", "epochs", 400, 8000, genScenario(ScenarioCfg{MaxEpochs: pick(40, 80), FitnessKinds: []string{"distinct", "distinct", "stagnating"},
		Parallel: 1, MinPop: 6, MaxPop: pick(40, 100), DupIds: true, Warm: true, Retry: true}), CheckC10)
}

func init() { registerReplay("C10", "epochs", CheckC10) }
