package props

import (
	"fmt"
	"testing"

	"github.com/yaricom/goNEAT/v4/neat/genetics"
)

/* C10 - the champion of every sizeable species survives the epoch unchanged */

type champInfo struct {
	snap     GenomeSpec
	fitness  float64
	disabled int
	rec      int
}

// championTracker remembers, before a turnover, the fittest organism of every species.
type championTracker struct {
	champs     map[*genetics.Species]champInfo
	order      []*genetics.Species
	preHighest float64
}

func (c *championTracker) snapshot(pop *genetics.Population) {
	c.champs = map[*genetics.Species]champInfo{}
	c.order = nil
	c.preHighest = pop.HighestFitness
	for _, sp := range pop.Species {
		var best *genetics.Organism
		for _, o := range sp.Organisms {
			if best == nil || o.Fitness > best.Fitness {
				best = o
			}
		}
		if best == nil {
			continue
		}
		s := Snapshot(best.Genotype)
		d, r, _ := specFeatures(s)
		c.champs[sp] = champInfo{snap: s, fitness: best.Fitness, disabled: d, rec: r}
		c.order = append(c.order, sp)
	}
}

func (c *championTracker) check(e int, pop *genetics.Population, stolen int, rec *Rec) error {
	var next []GenomeSpec
	deltaCoded := pop.EpochsHighestLastChanged == 0 && pop.HighestFitness == c.preHighest && e > 0
	for _, sp := range c.order {
		quota := sp.ExpectedOffspring
		if quota <= 5 {
			continue
		}
		info := c.champs[sp]
		if next == nil {
			for _, o := range pop.Organisms {
				next = append(next, Snapshot(o.Genotype))
			}
		}
		found := false
		for _, s := range next {
			if len(s.Genes) == len(info.snap.Genes) && len(s.Nodes) == len(info.snap.Nodes) && DiffSpec(info.snap, s) == "" {
				found = true
				break
			}
		}
		if !found {
			return fmt.Errorf("species %d had an offspring quota of %d but the next generation contains no unmodified copy of its champion (fitness %v, %d genes of which %d disabled): %s",
				sp.Id, quota, info.fitness, len(info.snap.Genes), info.disabled, jsonStr(info.snap))
		}
		rec.Class("species with quota > 5")
		if quota == 6 {
			rec.Class("quota exactly 6")
		}
		if info.rec > 0 {
			rec.Class("champion with recurrent genes")
		}
		if deltaCoded {
			rec.Class("quota set by delta coding")
		}
		if stolen > 0 {
			rec.Class("babies stolen configured")
		}
		if info.disabled > 0 {
			rec.Class("champion with disabled genes")
			rec.NonTrivial(hashOf(e, sp.Id, quota, len(info.snap.Genes), info.disabled, info.rec))
		}
	}
	return nil
}

func CheckC10(sc Scenario, rec *Rec) error {
	tr := &championTracker{}
	return runScenario(sc, epochHooks{
		before: func(e int, pop *genetics.Population) error { tr.snapshot(pop); return nil },
		after:  func(e int, pop *genetics.Population) error { return tr.check(e, pop, sc.Opts.BabiesStolen, rec) },
	}, rec)
}

func TestC10(t *testing.T) {
	runProp(t, "C10", "epochs", 400, 8000, genScenario(ScenarioCfg{MaxEpochs: pick(40, 80), FitnessKinds: []string{"distinct", "distinct", "stagnating"},
		Parallel: 1, MinPop: 6, MaxPop: pick(40, 100), DupIds: true, Warm: true, Retry: true}), CheckC10)
}

func init() { registerReplay("C10", "epochs", CheckC10) }

/* C10 (stepwise): the quota is read where it is final - between the executor's preparation phase (apportionment, stolen
   babies, delta coding) and the reproduction of the species - instead of from the old species objects after the turnover;
   the champion of every species whose quota exceeds five must have an unmodified copy among the babies that the species
   produce. Uses the tag-guarded phase hooks of the sequential executor, as C09 does. */
func CheckC10Stepwise(sc Scenario, rec *Rec) error {
	opts := sc.Opts.Build()
	pop, err := buildPopulation(sc, opts)
	if err == errSkipScenario {
		rec.Class("skipped: constructor outside the domain (gene-less random genome / failing turnover before the checkpoint)")
		return nil
	}
	if err != nil {
		return err
	}
	ctx := opts.NeatContext()
	exec := &genetics.SequentialPopulationEpochExecutor{}
	assign := func(e int) {
		n := len(pop.Organisms)
		for i, o := range pop.Organisms {
			o.Fitness = fitnessOf(sc.Fit, e, i, n, o.Genotype)
		}
	}
	for e := 0; e+1 < sc.Epochs; e++ {
		assign(e)
		if err := exec.NextEpoch(ctx, e, pop); err != nil {
			rec.Class("history ended by a failing turnover (outside this property, see C02)")
			return nil
		}
	}
	gen := sc.Epochs - 1
	assign(gen)
	tr := &championTracker{}
	tr.snapshot(pop)
	if err := exec.VerifPrepare(ctx, gen, pop); err != nil {
		rec.Class("history ended by a failing turnover (outside this property, see C02)")
		return nil
	}
	quota := map[*genetics.Species]int{}
	for _, sp := range pop.Species {
		quota[sp] = sp.ExpectedOffspring
	}
	sorted := exec.VerifSortedSpecies()
	var babies []GenomeSpec
	for _, sp := range pop.Species {
		bs, err := sp.VerifReproduce(ctx, gen, pop, sorted)
		if err != nil {
			rec.Class("history ended by a failing turnover (outside this property, see C02)")
			return nil
		}
		for _, b := range bs {
			babies = append(babies, Snapshot(b.Genotype))
		}
	}
	for _, sp := range tr.order {
		q, alive := quota[sp]
		if !alive || q <= 5 {
			continue
		}
		info := tr.champs[sp]
		found := false
		for _, s := range babies {
			if len(s.Genes) == len(info.snap.Genes) && len(s.Nodes) == len(info.snap.Nodes) && DiffSpec(info.snap, s) == "" {
				found = true
				break
			}
		}
		if !found {
			return fmt.Errorf("generation %d: species %d entered reproduction with a quota of %d, but none of the %d babies is an unmodified copy of its champion (fitness %v, %d genes of which %d disabled)",
				gen, sp.Id, q, len(babies), info.fitness, len(info.snap.Genes), info.disabled)
		}
		rec.Class("species with quota > 5")
		if q == 6 {
			rec.Class("quota exactly 6")
		}
		if q != sp.ExpectedOffspring {
			rec.Class("quota changed by the reproduction itself")
		}
		rec.NonTrivial(hashOf(gen, sp.Id, q, len(info.snap.Genes), info.disabled))
	}
	return nil
}

func TestC10Stepwise(t *testing.T) {
	runProp(t, "C10", "stepwise", 300, 6000, genScenario(ScenarioCfg{MaxEpochs: pick(30, 60), FitnessKinds: []string{"distinct", "distinct", "stagnating"},
		Parallel: 0, MinPop: 6, MaxPop: pick(40, 100), NoSwitch: true}), CheckC10Stepwise)
}

func init() { registerReplay("C10", "stepwise", CheckC10Stepwise) }
