package props

import (
	"fmt"
	"reflect"
	"sort"
	"testing"

	"github.com/yaricom/goNEAT/v4/neat"
	"github.com/yaricom/goNEAT/v4/neat/genetics"
	"github.com/yaricom/goNEAT/v4/neat/network"
	"gonum.org/v1/gonum/graph"
	"pgregory.net/rapid"
)

/* C11 - a phenotype network expresses exactly the enabled part of its genome */

type C11Case struct {
	G GenomeSpec `json:"genome"`
	// Prior, when present, describes an earlier state in which the same genome object was already expressed once
	// (as Organism.UpdatePhenotype and the mutators do): other enabled flags / weights, same or another network id.
	Prior *C11Prior `json:"prior,omitempty"`
}

type C11Prior struct {
	Enabled    []bool    `json:"enabled"`
	Weights    []float64 `json:"weights"`
	ModEnabled []bool    `json:"modules_enabled"`
	NetId      int       `json:"net_id"`
	// ViaOrganism: the genome belongs to an organism that expressed it in the earlier state; after the change the network
	// is obtained through Organism.UpdatePhenotype / Phenotype instead of a direct Genesis call
	ViaOrganism bool `json:"via_organism,omitempty"`
}

func GenC11() *rapid.Generator[C11Case] {
	gg := genGenomeSpec(GenomeCfg{Modules: true, MinGenes: 1, Big: true})
	return rapid.Custom(func(t *rapid.T) C11Case {
		c := C11Case{G: gg.Draw(t, "genome")}
		if len(c.G.Modules) > 0 && rapid.IntRange(0, 2).Draw(t, "node behind the modules") == 0 {
			c.G = addNodeBehindModules(c.G)
		}
		if rapid.IntRange(0, 2).Draw(t, "expressed before") == 0 {
			return c
		}
		p := &C11Prior{NetId: c.G.Id}
		if rapid.IntRange(0, 3).Draw(t, "other net id") == 0 {
			p.NetId = c.G.Id + 1
		}
		mode := rapid.IntRange(0, 2).Draw(t, "prior flags")
		for _, g := range c.G.Genes {
			p.Enabled = append(p.Enabled, g.En)
			p.Weights = append(p.Weights, g.W)
		}
		switch mode {
		case 0: // same number of enabled genes, other genes (a permutation of the flags)
			p.Enabled = rapid.Permutation(p.Enabled).Draw(t, "flag permutation")
		case 1:
			for i := range p.Enabled {
				p.Enabled[i] = rapid.Bool().Draw(t, "prior enabled")
			}
		}
		if rapid.Bool().Draw(t, "other weights") {
			for i := range p.Weights {
				p.Weights[i] = rapid.Float64Range(-3, 3).Draw(t, "prior weight")
			}
		}
		for _, m := range c.G.Modules {
			p.ModEnabled = append(p.ModEnabled, m.En != (rapid.IntRange(0, 3).Draw(t, "prior module flag") == 0))
		}
		p.ViaOrganism = rapid.IntRange(0, 2).Draw(t, "via organism") == 0
		c.Prior = p
		return c
	})
}

type linkKey struct {
	in, out int
	w       float64
	rec     bool
}

func linkMultiset(links []linkKey) map[linkKey]int {
	m := map[linkKey]int{}
	for _, l := range links {
		m[l]++
	}
	return m
}

func isTypedNil(v interface{}) bool {
	if v == nil {
		return false
	}
	rv := reflect.ValueOf(v)
	return rv.Kind() == reflect.Ptr && rv.IsNil()
}

func nodeIdSet(it graph.Nodes) ([]int64, error) {
	if it == nil {
		return nil, fmt.Errorf("nil node iterator")
	}
	var ids []int64
	for it.Next() {
		n := it.Node()
		if n == nil || isTypedNil(n) {
			return nil, fmt.Errorf("iterator yields a nil node")
		}
		ids = append(ids, n.ID())
	}
	sort.Slice(ids, func(i, j int) bool { return ids[i] < ids[j] })
	return ids, nil
}

// sameIdSet compares as sets: a neighbour joined by two parallel links (recurrent and not) may be listed twice.
func sameIdSet(got []int64, want map[int64]bool) bool {
	distinct := 0
	for i, id := range got {
		if !want[id] {
			return false
		}
		if i == 0 || got[i-1] != id {
			distinct++
		}
	}
	return distinct == len(want)
}

func CheckC11(c C11Case, rec *Rec) error {
	g := c.G.Build()
	var viaOrg *genetics.Organism
	if p := c.Prior; p != nil && len(p.Enabled) == len(g.Genes) && len(p.Weights) == len(g.Genes) && len(p.ModEnabled) == len(g.ControlGenes) {
		// the genome object was expressed before in another state, then changed through its exported fields
		for i, gn := range g.Genes {
			gn.IsEnabled, gn.Link.ConnectionWeight = p.Enabled[i], p.Weights[i]
		}
		for i, cg := range g.ControlGenes {
			cg.IsEnabled = p.ModEnabled[i]
		}
		if p.ViaOrganism {
			if org, err := genetics.NewOrganism(1, g, 1); err == nil {
				if _, err := org.Phenotype(); err == nil {
					viaOrg = org
				}
			}
		}
		if _, err := g.Genesis(p.NetId); err != nil {
			rec.Class("earlier expression failed (no enabled structure)")
		}
		for i, gn := range g.Genes {
			gn.IsEnabled, gn.Link.ConnectionWeight = c.G.Genes[i].En, c.G.Genes[i].W
		}
		for i, cg := range g.ControlGenes {
			cg.IsEnabled = c.G.Modules[i].En
		}
		rec.Class("genome expressed before in another state")
		if p.NetId == c.G.Id {
			rec.Class("expressed before under the same network id")
		}
	}
	var net *network.Network
	var err error
	if viaOrg != nil {
		// the organism re-expresses its changed genome
		rec.Class("network obtained through Organism.UpdatePhenotype")
		if err = viaOrg.UpdatePhenotype(); err == nil {
			net, err = viaOrg.Phenotype()
		}
	} else {
		net, err = g.Genesis(c.G.Id)
	}
	if err != nil {
		return fmt.Errorf("Genesis returned error: %v", err)
	}
	disabled, recurrent, _ := specFeatures(c.G)
	selfLoops, enabledMods, overlapMods := 0, 0, 0
	for _, gn := range c.G.Genes {
		if gn.In == gn.Out {
			selfLoops++
		}
	}
	for _, m := range c.G.Modules {
		if m.En {
			enabledMods++
		}
		for _, i := range m.Ins {
			if contains(m.Outs, i) && m.En {
				overlapMods++
			}
		}
	}
	if disabled > 0 {
		rec.Class("disabled gene")
	}
	if selfLoops > 0 {
		rec.Class("self-loop gene")
	}
	if enabledMods > 0 {
		rec.Class("enabled module")
	}
	if enabledMods < len(c.G.Modules) {
		rec.Class("disabled module")
	}
	if overlapMods > 0 {
		rec.Class("module reading and driving the same node")
	}
	if disabled > 0 && (recurrent > 0 || selfLoops > 0 || enabledMods > 0) {
		rec.NonTrivial(hashOf(len(c.G.Nodes), len(c.G.Genes), disabled, recurrent, selfLoops, len(c.G.Modules), enabledMods))
	}

	return checkExpression(net, c.G, rec, true)
}

// checkExpression compares a network with the genome specification it is said to express: structure (nodes, outputs,
// sensors, links, modules, counts) and - with graphView - every query of the graph view over all ordered pairs of ids.
func checkExpression(net *network.Network, spec GenomeSpec, rec *Rec, graphView bool) error {
	c := struct{ G GenomeSpec }{spec}
	// --- structure ---
	base := net.BaseNodes()
	if len(base) != len(c.G.Nodes) {
		return fmt.Errorf("network has %d base nodes, genome has %d nodes", len(base), len(c.G.Nodes))
	}
	byId := map[int]*network.NNode{}
	var wantOutputs, wantSensors []int
	for i, ns := range c.G.Nodes {
		n := base[i]
		if n.Id != ns.Id || int(n.NeuronType) != ns.Role || int(n.ActivationType) != ns.Act {
			return fmt.Errorf("base node %d is (id %d, role %d, activation %d), genome node is (id %d, role %d, activation %d)",
				i, n.Id, n.NeuronType, n.ActivationType, ns.Id, ns.Role, ns.Act)
		}
		byId[n.Id] = n
		if ns.Role == roleOutput {
			wantOutputs = append(wantOutputs, ns.Id)
		}
		if isSensorRole(ns.Role) {
			wantSensors = append(wantSensors, ns.Id)
		}
	}
	if len(net.Outputs) != len(wantOutputs) {
		return fmt.Errorf("network has %d outputs, genome has %d output nodes", len(net.Outputs), len(wantOutputs))
	}
	for i, o := range net.Outputs {
		if o.Id != wantOutputs[i] || o != byId[o.Id] {
			return fmt.Errorf("output %d of the network is node %d, genome order gives %d", i, o.Id, wantOutputs[i])
		}
	}
	// sensors in genome order, observed by loading distinct values
	vals := make([]float64, len(wantSensors))
	for i := range vals {
		vals[i] = float64(100 + i)
	}
	if err := net.LoadSensors(vals); err != nil {
		return fmt.Errorf("LoadSensors: %v", err)
	}
	for i, id := range wantSensors {
		if byId[id].Activation != vals[i] {
			return fmt.Errorf("sensor %d (node %d) received %v instead of the %d-th input value %v", i, id, byId[id].Activation, i, vals[i])
		}
	}
	if _, err := net.Flush(); err != nil {
		return fmt.Errorf("Flush: %v", err)
	}
	var want []linkKey
	for _, gn := range c.G.Genes {
		if gn.En {
			want = append(want, linkKey{gn.In, gn.Out, gn.W, gn.Rec})
		}
	}
	wantSet := linkMultiset(want)
	var viaIn, viaOut []linkKey
	for _, n := range base {
		for _, l := range n.Incoming {
			if l.OutNode != n || byId[l.InNode.Id] != l.InNode {
				return fmt.Errorf("incoming link %d->%d of node %d does not join the network's own nodes", l.InNode.Id, l.OutNode.Id, n.Id)
			}
			viaIn = append(viaIn, linkKey{l.InNode.Id, l.OutNode.Id, l.ConnectionWeight, l.IsRecurrent})
		}
		for _, l := range n.Outgoing {
			if l.InNode != n || byId[l.OutNode.Id] != l.OutNode {
				return fmt.Errorf("outgoing link %d->%d of node %d does not join the network's own nodes", l.InNode.Id, l.OutNode.Id, n.Id)
			}
			viaOut = append(viaOut, linkKey{l.InNode.Id, l.OutNode.Id, l.ConnectionWeight, l.IsRecurrent})
		}
	}
	// one link object per enabled gene: what a node lists as incoming is the very object its source lists as outgoing
	inObjs, outObjs := map[*network.Link]int{}, map[*network.Link]int{}
	for _, n := range base {
		for _, l := range n.Incoming {
			inObjs[l]++
		}
		for _, l := range n.Outgoing {
			outObjs[l]++
		}
	}
	for l, k := range inObjs {
		if k != 1 || outObjs[l] != 1 {
			return fmt.Errorf("link %d->%d is listed %d time(s) as an incoming and %d time(s) as an outgoing link (one link object per enabled gene, listed once at each end)",
				l.InNode.Id, l.OutNode.Id, k, outObjs[l])
		}
	}
	if len(outObjs) != len(inObjs) {
		return fmt.Errorf("%d link objects are listed as outgoing, %d as incoming", len(outObjs), len(inObjs))
	}
	if !reflect.DeepEqual(linkMultiset(viaIn), wantSet) && !(len(viaIn) == 0 && len(want) == 0) {
		return fmt.Errorf("links found through Incoming %v are not the enabled genes %v", viaIn, want)
	}
	if !reflect.DeepEqual(linkMultiset(viaOut), wantSet) && !(len(viaOut) == 0 && len(want) == 0) {
		return fmt.Errorf("links found through Outgoing %v are not the enabled genes %v", viaOut, want)
	}
	var mods []ModuleSpec
	for _, m := range c.G.Modules {
		if m.En {
			mods = append(mods, m)
		}
	}
	ctrl := net.ControlNodes()
	if len(ctrl) != len(mods) {
		return fmt.Errorf("network has %d control nodes, genome has %d enabled modules", len(ctrl), len(mods))
	}
	moduleLinks := 0
	for i, m := range mods {
		cn := ctrl[i]
		if cn.Id != m.Id || int(cn.ActivationType) != m.Act {
			return fmt.Errorf("control node %d is (id %d, activation %d), module is (id %d, activation %d)", i, cn.Id, cn.ActivationType, m.Id, m.Act)
		}
		var ins, outs []int
		for _, l := range cn.Incoming {
			if byId[l.InNode.Id] != l.InNode || l.OutNode != cn {
				return fmt.Errorf("module %d input link does not join the network's own nodes", m.Id)
			}
			ins = append(ins, l.InNode.Id)
		}
		for _, l := range cn.Outgoing {
			if byId[l.OutNode.Id] != l.OutNode || l.InNode != cn {
				return fmt.Errorf("module %d output link does not join the network's own nodes", m.Id)
			}
			outs = append(outs, l.OutNode.Id)
		}
		if !intsEq(ins, m.Ins) || !intsEq(outs, m.Outs) {
			return fmt.Errorf("control node %d is wired to inputs %v / outputs %v, module lists %v / %v", m.Id, ins, outs, m.Ins, m.Outs)
		}
		moduleLinks += len(m.Ins) + len(m.Outs)
	}
	all := net.AllNodes()
	if len(all) != len(base)+len(ctrl) {
		return fmt.Errorf("AllNodes has %d nodes, expected %d base + %d control", len(all), len(base), len(ctrl))
	}
	if got, want := net.NodeCount(), len(c.G.Nodes)+len(mods); got != want {
		return fmt.Errorf("NodeCount = %d, expected %d", got, want)
	}
	if got, want := net.LinkCount(), len(want)+moduleLinks; got != want {
		return fmt.Errorf("LinkCount = %d, expected %d", got, want)
	}
	if got, want := net.Complexity(), len(c.G.Nodes)+len(mods)+len(want)+moduleLinks; got != want {
		return fmt.Errorf("Complexity = %d, expected %d", got, want)
	}

	if !graphView {
		return nil
	}
	// --- graph view against the adjacency model ---
	type pair struct{ u, v int64 }
	adj := map[pair][]float64{}
	for _, l := range want {
		p := pair{int64(l.in), int64(l.out)}
		adj[p] = append(adj[p], l.w)
	}
	present := map[int64]bool{}
	for _, n := range c.G.Nodes {
		present[int64(n.Id)] = true
	}
	for _, m := range mods {
		present[int64(m.Id)] = true
		for _, i := range m.Ins {
			adj[pair{int64(i), int64(m.Id)}] = append(adj[pair{int64(i), int64(m.Id)}], 1.0)
		}
		for _, o := range m.Outs {
			adj[pair{int64(m.Id), int64(o)}] = append(adj[pair{int64(m.Id), int64(o)}], 1.0)
		}
	}
	ids, err := nodeIdSet(net.Nodes())
	if err != nil {
		return fmt.Errorf("Nodes(): %v", err)
	}
	if !sameIdSet(ids, present) || len(ids) != len(present) {
		return fmt.Errorf("Nodes() = %v, expected each of the ids %v once", ids, present)
	}
	maxId := int64(0)
	query := []int64{0, -1}
	for id := range present {
		query = append(query, id)
		if id > maxId {
			maxId = id
		}
	}
	query = append(query, maxId+1, maxId+7)
	for _, m := range c.G.Modules {
		if !m.En {
			query = append(query, int64(m.Id)) // a disabled module contributes nothing
		}
	}
	sort.Slice(query, func(i, j int) bool { return query[i] < query[j] })
	// results requested first and read afterwards: every query result is a value of its own, whatever is asked next
	type heldResult struct {
		u        int64
		from, to graph.Nodes
	}
	var held []heldResult
	for _, u := range query {
		held = append(held, heldResult{u, net.From(u), net.To(u)})
	}
	for _, h := range held {
		succ, pred := map[int64]bool{}, map[int64]bool{}
		for p := range adj {
			if p.u == h.u {
				succ[p.v] = true
			}
			if p.v == h.u {
				pred[p.u] = true
			}
		}
		if got, err := nodeIdSet(h.from); err != nil || !sameIdSet(got, succ) {
			return fmt.Errorf("From(%d), read after the other queries were made, = %v (%v), successors in the genome are %v", h.u, got, err, succ)
		}
		if got, err := nodeIdSet(h.to); err != nil || !sameIdSet(got, pred) {
			return fmt.Errorf("To(%d), read after the other queries were made, = %v (%v), predecessors in the genome are %v", h.u, got, err, pred)
		}
	}
	for _, u := range query {
		n := net.Node(u)
		if present[u] {
			if n == nil || isTypedNil(n) || n.ID() != u {
				return fmt.Errorf("Node(%d) does not return the node", u)
			}
		} else if n != nil {
			return fmt.Errorf("Node(%d) for an absent id is not nil (typed nil: %v)", u, isTypedNil(n))
		}
		succ, pred := map[int64]bool{}, map[int64]bool{}
		for p := range adj {
			if p.u == u {
				succ[p.v] = true
			}
			if p.v == u {
				pred[p.u] = true
			}
		}
		got, err := nodeIdSet(net.From(u))
		if err != nil || !sameIdSet(got, succ) {
			return fmt.Errorf("From(%d) = %v (%v), successors in the genome are %v", u, got, err, succ)
		}
		got, err = nodeIdSet(net.To(u))
		if err != nil || !sameIdSet(got, pred) {
			return fmt.Errorf("To(%d) = %v (%v), predecessors in the genome are %v", u, got, err, pred)
		}
		for _, v := range query {
			ws, has := adj[pair{u, v}]
			_, hasRev := adj[pair{v, u}]
			if got := net.HasEdgeFromTo(u, v); got != has {
				return fmt.Errorf("HasEdgeFromTo(%d,%d) = %v, genome says %v", u, v, got, has)
			}
			if got := net.HasEdgeBetween(u, v); got != (has || hasRev) {
				return fmt.Errorf("HasEdgeBetween(%d,%d) = %v, genome says %v", u, v, got, has || hasRev)
			}
			e := net.Edge(u, v)
			we := net.WeightedEdge(u, v)
			w, ok := net.Weight(u, v)
			if has {
				if e == nil || isTypedNil(e) || e.From().ID() != u || e.To().ID() != v {
					return fmt.Errorf("Edge(%d,%d) does not return the edge", u, v)
				}
				if we == nil || isTypedNil(we) || we.From().ID() != u || we.To().ID() != v {
					return fmt.Errorf("WeightedEdge(%d,%d) does not return the edge", u, v)
				}
				found, foundWe := false, false
				for _, x := range ws {
					found = found || x == w
					foundWe = foundWe || x == we.Weight()
				}
				if !ok || !found || !foundWe {
					return fmt.Errorf("Weight(%d,%d) = (%v,%v), WeightedEdge weight %v; the genome's links there weigh %v", u, v, w, ok, we.Weight(), ws)
				}
			} else {
				if e != nil {
					return fmt.Errorf("Edge(%d,%d) for an absent edge is not nil (typed nil: %v)", u, v, isTypedNil(e))
				}
				if we != nil {
					return fmt.Errorf("WeightedEdge(%d,%d) for an absent edge is not nil (typed nil: %v)", u, v, isTypedNil(we))
				}
				if ok {
					return fmt.Errorf("Weight(%d,%d) reports an edge (%v) that the genome does not have", u, v, w)
				}
			}
		}
	}
	rec.ClassN("pair queries", len(query)*len(query))
	return nil
}

/* C11 (epochs): the networks that organisms hand out. After construction and after every turnover of a generated history each
   organism's Phenotype() must express the organism's genome as it is now (babies were duplicated, mutated, mated, some of
   them decoded from the wire format; an evaluator works on exactly these networks). */
func CheckC11Epochs(sc Scenario, rec *Rec) error {
	look := func(when string, pop *genetics.Population) error {
		for i, o := range pop.Organisms {
			net, err := o.Phenotype()
			if err != nil {
				return fmt.Errorf("%s: organism %d: Phenotype returned error %v", when, i, err)
			}
			spec := Snapshot(o.Genotype)
			if err := checkExpression(net, spec, rec, i%7 == 0 && len(spec.Nodes) <= 12); err != nil {
				return fmt.Errorf("%s: the phenotype of organism %d (genome %d) does not express its genome: %v", when, i, o.Genotype.Id, err)
			}
		}
		return nil
	}
	prevGenes := 0
	return runScenario(sc, epochHooks{
		built: func(pop *genetics.Population, _ *neat.Options) error { return look("after construction", pop) },
		after: func(e int, pop *genetics.Population) error {
			if len(sc.Start.Modules) > 0 {
				// a population spawned from a modular genome is looked at after construction only: the crossovers hand the
				// modules of both parents to a child (DESIGN 5.2), what a turnover makes of modular genomes is outside the
				// domain of every listed property
				return nil
			}
			genes := 0
			for _, o := range pop.Organisms {
				genes += len(o.Genotype.Genes)
			}
			if genes > prevGenes && prevGenes > 0 {
				rec.Class("turnover that added genes")
				rec.NonTrivial(hashOf(e, len(pop.Organisms), genes, len(pop.Species)))
			}
			prevGenes = genes
			return look(fmt.Sprintf("after epoch %d", e), pop)
		},
	}, rec)
}

func TestC11Epochs(t *testing.T) {
	runProp(t, "C11", "epochs", 150, 3000, genScenario(ScenarioCfg{MaxEpochs: pick(10, 25), Parallel: 1, Structural: true, MaxPop: pick(30, 60), ModularStart: true}), CheckC11Epochs)
}

func init() { registerReplay("C11", "epochs", CheckC11Epochs) }

func TestC11(t *testing.T) {
	runProp(t, "C11", "genesis", 3000, 60000, GenC11(), CheckC11)
}

func init() { registerReplay("C11", "genesis", CheckC11) }
