package props

import (
	"fmt"
	"math"
	"testing"

	"github.com/yaricom/goNEAT/v4/neat/network"
	"pgregory.net/rapid"
)

/* C12 - all solvers compute the feed-forward function of the network */

type C12Case struct {
	Net    NetSpec   `json:"net"`
	Inputs []float64 `json:"inputs"`
	Extra  int       `json:"extra_steps"`
	// Inputs2, when present, is a second input vector evaluated afterwards on the same solver instances without a
	// flush in between: in a feed-forward network the outputs after enough steps depend on the loaded inputs only
	Inputs2 []float64 `json:"inputs2,omitempty"`
	// Flush2: the instances are flushed between the two vectors
	Flush2 bool `json:"flush_between,omitempty"`
	// Mix > 0: on the fast solvers the second vector is evaluated by another way of activation than the first (forward
	// stepping -> recursive -> relaxation -> forward stepping, rotated by Mix), forward stepping then with exactly as many
	// steps as the longest path: what one way of activation leaves behind is not an input of the next
	Mix int `json:"second_vector_other_way,omitempty"`
	// PriorCap > 0: every network instance is first asked for its depth under this cap (below the real depth, so the
	// query gives up with the depth-exceeded error) - a read-only query that must not influence later evaluations
	PriorCap int `json:"prior_capped_depth_query,omitempty"`
	// Tuned: after a fast solver was derived from the network, every link weight of the network object is rewritten in
	// place (w -> w/2 + 1/4, as weight tuning on the phenotype does); the standard solver and a fast solver derived afterwards
	// must compute the function of the new weights
	Tuned bool `json:"weights_rewritten_in_place,omitempty"`
	// ExplicitBias: the standard network first receives a full-length vector that sets the bias nodes to 0.5 and is
	// propagated; the evaluation proper then loads the inputs only (bias inputs being one again)
	ExplicitBias bool `json:"explicit_bias_loaded_first,omitempty"`
}

func GenC12() *rapid.Generator[C12Case] {
	ng := genNet(NetCfg{LongChains: true, Rename: true, Wide: true, FlaggedLinks: true, ManyIO: true})
	return rapid.Custom(func(t *rapid.T) C12Case {
		c := C12Case{Net: ng.Draw(t, "net"), Extra: rapid.IntRange(0, 3).Draw(t, "extra steps")}
		nIn, _, _, _ := c.Net.counts()
		for i := 0; i < nIn; i++ {
			c.Inputs = append(c.Inputs, rapid.OneOf(rapid.Float64Range(-3, 3), rapid.Float64Range(-1, 1),
				rapid.SampledFrom([]float64{0, 1, -1, 1e-3, -1e-3, 50, -50, 0.5})).Draw(t, "input"))
		}
		if rapid.Bool().Draw(t, "second vector") {
			zeros := rapid.IntRange(0, 4).Draw(t, "second vector all zeros") == 0
			for i := 0; i < nIn; i++ {
				v := rapid.OneOf(rapid.Float64Range(-3, 3), rapid.SampledFrom([]float64{0, 1, -1, 0.5, 2})).Draw(t, "input2")
				if zeros {
					v = 0
				}
				c.Inputs2 = append(c.Inputs2, v)
			}
			c.Flush2 = rapid.Bool().Draw(t, "flush between")
			c.Mix = rapid.SampledFrom([]int{0, 0, 1, 2}).Draw(t, "second vector by another way of activation")
		}
		c.Tuned = rapid.IntRange(0, 5).Draw(t, "tuned") == 0
		c.ExplicitBias = rapid.IntRange(0, 3).Draw(t, "explicit bias first") == 0
		if d, _ := c.Net.longestPathToOutputs(); d >= 2 && rapid.IntRange(0, 3).Draw(t, "prior capped query") == 0 {
			c.PriorCap = rapid.IntRange(1, d-1).Draw(t, "prior cap")
		}
		return c
	})
}

func compareOutputs(name string, got []float64, ref evalResult) error {
	if len(got) != len(ref.out) {
		return fmt.Errorf("%s returned %d outputs, network has %d", name, len(got), len(ref.out))
	}
	for i := range got {
		tol := 4*ref.bound[i] + 1e-12
		if math.IsNaN(got[i]) || math.Abs(got[i]-ref.out[i]) > tol {
			return fmt.Errorf("%s: output %d = %v, topological evaluation gives %v (tolerance %g)", name, i, got[i], ref.out[i], tol)
		}
	}
	return nil
}

func CheckC12(c C12Case, rec *Rec) error {
	ref, err := c.Net.evalFeedForward(c.Inputs, true)
	if err != nil {
		return fmt.Errorf("harness: %v", err)
	}
	depth, _ := c.Net.longestPathToOutputs()
	nIn, nBias, nHid, nOut := c.Net.counts()
	if ref.illPosed {
		rec.Class("discarded: discontinuous activation evaluated at its jump")
		return nil
	}
	if ref.maxBound > 1e-7 {
		rec.Class("discarded: ill-conditioned (rounding bound above 1e-7)")
		return nil
	}
	noBias, _ := c.Net.evalFeedForward(c.Inputs, false)
	biasMatters := false
	for i := range ref.out {
		if math.Abs(ref.out[i]-noBias.out[i]) > 1e-6 {
			biasMatters = true
		}
	}
	if biasMatters {
		rec.Class("bias link moves an output by more than 1e-6")
	}
	if nBias > 1 {
		rec.Class("several bias nodes")
	}
	if depth >= 3 {
		rec.Class("depth >= 3")
	}
	if c.Net.Renamed {
		rec.Class("node list does not start with the sensors")
	}
	if len(c.Net.Nodes) > 130 {
		rec.Class("more than 128 neurons")
	}
	if depth > 20 {
		rec.Class("depth above 20")
	}
	if len(c.Net.OutOrder) > 0 {
		rec.Class("output list in another order than the node list")
	}
	if c.Net.ViaGenome {
		rec.Class("network expressed from a genome")
	} else {
		rec.Class("network built from constructors")
	}
	if biasMatters && depth >= 2 {
		rec.NonTrivial(hashOf(nIn, nBias, nHid, nOut, len(c.Net.Links), depth))
	}
	steps := depth + c.Extra
	if steps == 0 {
		steps = 1
	}

	fresh := func() (*network.Network, error) {
		n, err := c.Net.Build()
		if err == nil && c.PriorCap > 0 {
			if _, qerr := n.MaxActivationDepthWithCap(c.PriorCap); qerr != nil {
				rec.Class("network was asked for its depth under a cap it exceeds before the evaluation")
			}
		}
		return n, err
	}
	// 1. the standard solver
	net, err := fresh()
	if err != nil {
		return fmt.Errorf("building the network failed: %v", err)
	}
	if c.ExplicitBias && nBias > 0 {
		full := make([]float64, 0, nIn+nBias)
		k := 0
		for _, n := range c.Net.Nodes {
			switch n.Role {
			case roleInput:
				full = append(full, -c.Inputs[k]+0.25)
				k++
			case roleBias:
				full = append(full, 0.5)
			}
		}
		if err = net.LoadSensors(full); err != nil {
			return fmt.Errorf("Network.LoadSensors (full-length vector): %v", err)
		}
		if _, err = net.ForwardSteps(steps); err != nil {
			return fmt.Errorf("Network.ForwardSteps(%d) after the full-length load: %v", steps, err)
		}
		rec.Class("explicit bias values loaded before the evaluation")
	}
	if err = net.LoadSensors(c.Inputs); err != nil {
		return fmt.Errorf("Network.LoadSensors: %v", err)
	}
	if _, err = net.ForwardSteps(steps); err != nil {
		return fmt.Errorf("Network.ForwardSteps(%d) (depth %d): %v", steps, depth, err)
	}
	heldStd := net.ReadOutputs()
	if err = compareOutputs(fmt.Sprintf("Network.ForwardSteps(%d)", steps), heldStd, ref); err != nil {
		return err
	}
	var ref2 *evalResult
	if len(c.Inputs2) == nIn && nIn > 0 {
		if r2, err := c.Net.evalFeedForward(c.Inputs2, true); err == nil && !r2.illPosed && r2.maxBound <= 1e-7 {
			ref2 = &r2
			rec.Class("second input vector on the same instances")
		}
	}
	if ref2 != nil && c.Flush2 {
		rec.Class("flushed between the two vectors")
	}
	if ref2 != nil {
		if c.Flush2 {
			if _, err = net.Flush(); err != nil {
				return fmt.Errorf("Network.Flush: %v", err)
			}
		}
		if err = net.LoadSensors(c.Inputs2); err != nil {
			return fmt.Errorf("Network.LoadSensors (second vector): %v", err)
		}
		if c.Mix > 0 && nHid > 0 {
			// the other way of activation of the standard network for the second vector
			if _, err = net.RecursiveSteps(); err != nil {
				return fmt.Errorf("Network.RecursiveSteps (second vector, after forward stepping): %v", err)
			}
		} else if _, err = net.ForwardSteps(steps); err != nil {
			return fmt.Errorf("Network.ForwardSteps(%d) (second vector): %v", steps, err)
		}
		if err = compareOutputs(fmt.Sprintf("second input vector on the same network, Network.ForwardSteps(%d) (Network.RecursiveSteps when the ways are mixed)", steps), net.ReadOutputs(), *ref2); err != nil {
			return err
		}
		// the outputs read after the first evaluation are values of their own
		if err = compareOutputs("outputs of the first evaluation, read again after the second one (Network)", heldStd, ref); err != nil {
			return err
		}
	}
	if nHid > 0 {
		// propagating for exactly the reported depth (well defined with at least one hidden node, see C14)
		net, _ = fresh()
		_ = net.LoadSensors(c.Inputs)
		if _, err = net.RecursiveSteps(); err != nil {
			return fmt.Errorf("Network.RecursiveSteps: %v", err)
		}
		if err = compareOutputs("Network.RecursiveSteps", net.ReadOutputs(), ref); err != nil {
			return err
		}
		if ref2 != nil {
			if c.Flush2 {
				if _, err = net.Flush(); err != nil {
					return fmt.Errorf("Network.Flush: %v", err)
				}
			}
			_ = net.LoadSensors(c.Inputs2)
			if c.Mix > 0 {
				if _, err = net.ForwardSteps(depth); err != nil {
					return fmt.Errorf("Network.ForwardSteps(%d) (second vector, after recursive activation): %v", depth, err)
				}
			} else if _, err = net.RecursiveSteps(); err != nil {
				return fmt.Errorf("Network.RecursiveSteps (second vector): %v", err)
			}
			if err = compareOutputs("second input vector on the same network, Network.RecursiveSteps", net.ReadOutputs(), *ref2); err != nil {
				return err
			}
		}
	}
	// 2. the fast solver: forward stepping, recursive activation, relaxation (a fresh solver each)
	type run struct {
		name string
		f    func(s network.Solver) error
	}
	relaxBudget := nHid + nOut + 2
	runs := []run{
		{fmt.Sprintf("fast ForwardSteps(%d)", steps), func(s network.Solver) error { _, e := s.ForwardSteps(steps); return e }},
		{"fast RecursiveSteps", func(s network.Solver) error { _, e := s.RecursiveSteps(); return e }},
		{fmt.Sprintf("fast Relax(%d)", relaxBudget), func(s network.Solver) error {
			relaxed, e := s.Relax(relaxBudget, math.SmallestNonzeroFloat64)
			if e == nil && !relaxed {
				rec.Class("Relax did not report relaxed (flag not asserted)")
			}
			return e
		}},
	}
	exact := depth
	if exact == 0 {
		exact = 1
	}
	second := func(k int) run { // the way of activation used for the second vector
		if c.Mix == 0 {
			return runs[k]
		}
		r2 := runs[(k+c.Mix)%len(runs)]
		if (k+c.Mix)%len(runs) == 0 {
			r2 = run{fmt.Sprintf("fast ForwardSteps(%d)", exact), func(s network.Solver) error { _, e := s.ForwardSteps(exact); return e }}
		}
		r2.name = r2.name + " after " + runs[k].name
		return r2
	}
	if c.Mix > 0 && ref2 != nil {
		rec.Class("second vector evaluated by another way of activation")
	}
	for k, r := range runs {
		n2, err := fresh()
		if err != nil {
			return err
		}
		solver, err := n2.FastNetworkSolver()
		if err != nil {
			return fmt.Errorf("FastNetworkSolver: %v", err)
		}
		if err = solver.LoadSensors(c.Inputs); err != nil {
			return fmt.Errorf("fast LoadSensors: %v", err)
		}
		if err = r.f(solver); err != nil {
			return fmt.Errorf("%s: %v", r.name, err)
		}
		heldFast := solver.ReadOutputs()
		if err = compareOutputs(r.name, heldFast, ref); err != nil {
			return err
		}
		if ref2 != nil {
			if c.Flush2 {
				if _, err = solver.Flush(); err != nil {
					return fmt.Errorf("fast Flush: %v", err)
				}
			}
			if err = solver.LoadSensors(c.Inputs2); err != nil {
				return fmt.Errorf("fast LoadSensors (second vector): %v", err)
			}
			r2 := second(k)
			if err = r2.f(solver); err != nil {
				return fmt.Errorf("%s (second vector): %v", r2.name, err)
			}
			if err = compareOutputs("second input vector on the same solver, "+r2.name, solver.ReadOutputs(), *ref2); err != nil {
				return err
			}
			if err = compareOutputs("outputs of the first evaluation, read again after the second one, "+r.name, heldFast, ref); err != nil {
				return err
			}
		}
	}
	// 3. a fast solver assembled with the public constructor (every link an ordinary connection, also those of the bias
	// neurons; the form a model file holds): the same three ways of activation
	for k, r := range runs {
		solver := c.Net.BuildSolverDirect()
		if err = solver.LoadSensors(c.Inputs); err != nil {
			return fmt.Errorf("fast LoadSensors (solver from the constructor): %v", err)
		}
		if err = r.f(solver); err != nil {
			return fmt.Errorf("%s (solver from the constructor): %v", r.name, err)
		}
		if err = compareOutputs(r.name+" (solver assembled with the public constructor)", solver.ReadOutputs(), ref); err != nil {
			return err
		}
		if ref2 != nil {
			if c.Flush2 {
				if _, err = solver.Flush(); err != nil {
					return fmt.Errorf("fast Flush (solver from the constructor): %v", err)
				}
			}
			if err = solver.LoadSensors(c.Inputs2); err != nil {
				return fmt.Errorf("fast LoadSensors (solver from the constructor, second vector): %v", err)
			}
			r2 := second(k)
			if err = r2.f(solver); err != nil {
				return fmt.Errorf("%s (solver from the constructor, second vector): %v", r2.name, err)
			}
			if err = compareOutputs("second input vector, "+r2.name+" (solver assembled with the public constructor)", solver.ReadOutputs(), *ref2); err != nil {
				return err
			}
		}
	}
	rec.Class("fast solver assembled with the public constructor")
	if c.Tuned {
		n3, err := fresh()
		if err != nil {
			return err
		}
		if _, err = n3.FastNetworkSolver(); err != nil {
			return fmt.Errorf("FastNetworkSolver: %v", err)
		}
		tuned := c.Net
		tuned.Links = append([]NetLink(nil), c.Net.Links...)
		for i := range tuned.Links {
			tuned.Links[i].W = tuned.Links[i].W/2 + 0.25
		}
		for _, node := range n3.AllNodes() {
			for _, l := range node.Incoming {
				l.ConnectionWeight = l.ConnectionWeight/2 + 0.25
			}
		}
		tref, err := tuned.evalFeedForward(c.Inputs, true)
		if err == nil && !tref.illPosed && tref.maxBound <= 1e-7 {
			rec.Class("weights rewritten in place after a solver was derived")
			_ = n3.LoadSensors(c.Inputs)
			if _, err = n3.ForwardSteps(steps); err != nil {
				return fmt.Errorf("Network.ForwardSteps(%d) after the weights were rewritten: %v", steps, err)
			}
			if err = compareOutputs("after the weights were rewritten in place, Network.ForwardSteps", n3.ReadOutputs(), tref); err != nil {
				return err
			}
			solver, err := n3.FastNetworkSolver()
			if err != nil {
				return fmt.Errorf("FastNetworkSolver (second call): %v", err)
			}
			_ = solver.LoadSensors(c.Inputs)
			if _, err = solver.ForwardSteps(steps); err != nil {
				return fmt.Errorf("fast ForwardSteps(%d) after the weights were rewritten: %v", steps, err)
			}
			if err = compareOutputs("fast solver derived after the weights were rewritten in place, ForwardSteps", solver.ReadOutputs(), tref); err != nil {
				return err
			}
		}
	}
	return nil
}

func TestC12(t *testing.T) {
	runProp(t, "C12", "dag", 15000, 300000, GenC12(), CheckC12)
}

func init() { registerReplay("C12", "dag", CheckC12) }
