package props

import (
	"fmt"
	"math"
	"testing"

	"github.com/yaricom/goNEAT/v4/neat/genetics"
	"github.com/yaricom/goNEAT/v4/neat/network"
	"pgregory.net/rapid"
)

/* C13 - flushing makes a network indistinguishable from a freshly built one */

type NetOp struct {
	Kind  string    `json:"kind"` // load | activate | forward | recursive | depth | relax
	K     int       `json:"k,omitempty"`
	Vec   []float64 `json:"vec,omitempty"`
	Delta float64   `json:"delta,omitempty"`
	Wild  []int     `json:"extreme_values,omitempty"` // load: the vector consists of extremeSignals[i]
}

var extremeSignals = []float64{1e308, -1e308, math.Inf(1), math.Inf(-1), math.NaN(), -1, 5e-324}

func (op NetOp) vector() []float64 {
	if len(op.Wild) == 0 {
		return op.Vec
	}
	v := make([]float64, len(op.Wild))
	for i, k := range op.Wild {
		v[i] = extremeSignals[k%len(extremeSignals)]
	}
	return v
}

type C13Case struct {
	Net     NetSpec     `json:"net"`
	Modular *GenomeSpec `json:"modular,omitempty"` // if set, the network is the expression of this modular genome
	Fast    bool        `json:"fast"`
	// Direct (fast solver, non-modular): the solver is built with the public constructor, bias links as ordinary connections
	Direct bool `json:"solver_from_constructor,omitempty"`
	// SameNet (fast solver derived from a network): the fresh instance is a second solver derived, after the flush, from the
	// same network object as the flushed one - solvers are independent of each other
	SameNet bool `json:"fresh_solver_from_the_same_network_object,omitempty"`
	History []NetOp     `json:"history"`
	Seq     []NetOp     `json:"sequence"`
}

// failingWriter accepts K bytes and then reports an error (a pipe that was closed, a full disk).
type failingWriter struct{ left int }

func (w *failingWriter) Write(p []byte) (int, error) {
	if len(p) > w.left {
		n := w.left
		w.left = 0
		return n, fmt.Errorf("injected write error")
	}
	w.left -= len(p)
	return len(p), nil
}

func drawNetOps(t *rapid.T, label string, n, nIn, nSensors int, fast bool) []NetOp {
	// "flush": a flush in the middle of a history or of a sequence; "paths" (standard network): the activation paths are
	// printed to a writer that fails after K bytes - a read-only dump that shares the traversal marks with the depth queries
	kinds := []string{"load", "load", "activate", "forward", "recursive", "depth", "flush", "paths"}
	if fast {
		kinds = []string{"load", "load", "forward", "forward", "recursive", "relax", "flush"}
	}
	history := label == "history"
	var ops []NetOp
	for i := 0; i < n; i++ {
		op := NetOp{Kind: rapid.SampledFrom(kinds).Draw(t, label+" op")}
		switch op.Kind {
		case "load":
			l := nIn
			if !fast && nSensors != nIn && rapid.IntRange(0, 3).Draw(t, "load bias too") == 0 {
				l = nSensors
			}
			wild := history && rapid.IntRange(0, 5).Draw(t, "extreme sensor values") == 0
			for j := 0; j < l; j++ {
				if wild {
					// before the flush anything may have gone through the network: huge, infinite and undefined signals
					// (stored as indices into extremeSignals: JSON has no syntax for them)
					op.Wild = append(op.Wild, rapid.IntRange(0, len(extremeSignals)-1).Draw(t, "x"))
					continue
				}
				op.Vec = append(op.Vec, rapid.OneOf(rapid.Float64Range(-2, 2), rapid.SampledFrom([]float64{0, 1, -1, 0.5, 10})).Draw(t, "x"))
			}
		case "activate", "forward", "depth":
			op.K = rapid.IntRange(0, 6).Draw(t, "k")
		case "paths":
			op.K = rapid.SampledFrom([]int{0, 1, 5, 20, 60, 1 << 20}).Draw(t, "bytes accepted")
		case "relax":
			op.K = rapid.IntRange(0, 6).Draw(t, "k")
			op.Delta = rapid.SampledFrom([]float64{0, 1e-9, 0.1, math.SmallestNonzeroFloat64}).Draw(t, "delta")
		}
		ops = append(ops, op)
	}
	return ops
}

func GenC13() *rapid.Generator[C13Case] {
	cyc := genNet(NetCfg{Cyclic: true, ParallelLinks: true, Rename: true, BigRecurrent: true})
	dag := genNet(NetCfg{Rename: true, Wide: true, FlaggedLinks: true, ManyIO: true})
	mod := genGenomeSpec(GenomeCfg{Modules: true, MinGenes: 1, SingleOutMod: true, ModestWeight: true, AllEnabled: false})
	return rapid.Custom(func(t *rapid.T) C13Case {
		c := C13Case{Fast: rapid.Bool().Draw(t, "fast solver")}
		c.Direct = c.Fast && rapid.IntRange(0, 3).Draw(t, "solver from constructor") == 0
		c.SameNet = c.Fast && !c.Direct && rapid.IntRange(0, 2).Draw(t, "same network object") == 0
		nIn, nSensors := 0, 0
		switch rapid.IntRange(0, 5).Draw(t, "topology") {
		case 0:
			c.Net = dag.Draw(t, "dag")
		case 1:
			g := mod.Draw(t, "modular genome")
			c.Modular = &g
		default:
			c.Net = cyc.Draw(t, "cyclic")
		}
		if c.Modular == nil && rapid.IntRange(0, 14).Draw(t, "failing activation") == 7 {
			// a neuron whose activation type is not registered: activations that reach it fail; a failed activation is
			// part of "all prior activation histories" and must leave nothing behind either
			var neurons []int
			for i, n := range c.Net.Nodes {
				if !isSensorRole(n.Role) {
					neurons = append(neurons, i)
				}
			}
			if len(neurons) > 0 {
				c.Net.Nodes[neurons[rapid.IntRange(0, len(neurons)-1).Draw(t, "failing neuron")]].Act = 0
			}
		}
		if c.Modular != nil {
			for _, n := range c.Modular.Nodes {
				if n.Role == roleInput {
					nIn++
				}
				if isSensorRole(n.Role) {
					nSensors++
				}
			}
		} else {
			a, b, _, _ := c.Net.counts()
			nIn, nSensors = a, a+b
		}
		c.History = drawNetOps(t, "history", rapid.IntRange(0, 10).Draw(t, "history len"), nIn, nSensors, c.Fast)
		c.Seq = drawNetOps(t, "sequence", rapid.IntRange(1, 10).Draw(t, "sequence len"), nIn, nSensors, c.Fast)
		return c
	})
}

type netOrSolver struct {
	net    *network.Network
	solver network.Solver
}

func (c C13Case) fresh() (netOrSolver, error) {
	var net *network.Network
	var err error
	if c.Modular != nil {
		net, err = c.Modular.Build().Genesis(1)
	} else {
		net, err = c.Net.Build()
	}
	if err != nil {
		return netOrSolver{}, err
	}
	if c.Fast && c.Direct && c.Modular == nil {
		return netOrSolver{net: net, solver: c.Net.BuildSolverDirect()}, nil
	}
	if c.Fast {
		s, err := net.FastNetworkSolver()
		return netOrSolver{net: net, solver: s}, err
	}
	return netOrSolver{net: net, solver: net}, nil
}

func errText(err error) string {
	if err == nil {
		return ""
	}
	return err.Error()
}

// applyNetOp applies one operation and returns an observation string (result flag / depth and error text).
func applyNetOp(x netOrSolver, op NetOp) string {
	switch op.Kind {
	case "load":
		return "load:" + errText(x.solver.LoadSensors(op.vector()))
	case "activate":
		ok, err := x.net.ActivateSteps(op.K)
		return fmt.Sprintf("activate:%v:%s", ok, errText(err))
	case "forward":
		ok, err := x.solver.ForwardSteps(op.K)
		return fmt.Sprintf("forward:%v:%s", ok, errText(err))
	case "recursive":
		ok, err := x.solver.RecursiveSteps()
		return fmt.Sprintf("recursive:%v:%s", ok, errText(err))
	case "depth":
		d, err := x.net.MaxActivationDepthWithCap(op.K)
		return fmt.Sprintf("depth:%d:%s", d, errText(err))
	case "relax":
		ok, err := x.solver.Relax(op.K, op.Delta)
		return fmt.Sprintf("relax:%v:%s", ok, errText(err))
	case "flush":
		ok, err := x.solver.Flush()
		return fmt.Sprintf("flush:%v:%s", ok, errText(err))
	case "paths":
		if len(x.net.AllNodes()) > 40 {
			return "paths: skipped (large network)"
		}
		err := network.PrintAllActivationDepthPaths(x.net, &failingWriter{left: op.K})
		return fmt.Sprintf("paths:%v", err != nil)
	}
	return "harness: unknown op"
}

func bitsEqual(a, b []float64) bool {
	if len(a) != len(b) {
		return false
	}
	for i := range a {
		if math.Float64bits(a[i]) != math.Float64bits(b[i]) && !(math.IsNaN(a[i]) && math.IsNaN(b[i])) {
			return false
		}
	}
	return true
}

func CheckC13(c C13Case, rec *Rec) error {
	a, err := c.fresh()
	if err != nil {
		return fmt.Errorf("building the network failed: %v", err)
	}
	b, err := c.fresh()
	if err != nil {
		return err
	}
	loaded, activatedAfterLoad := false, false
	for _, op := range c.History {
		applyNetOp(a, op)
		if op.Kind == "load" {
			loaded = true
		} else if loaded && op.Kind != "depth" {
			activatedAfterLoad = true
		}
	}
	if ok, err := a.solver.Flush(); err != nil || !ok {
		return fmt.Errorf("Flush returned (%v, %v)", ok, err)
	}
	if c.Fast && c.SameNet && !c.Direct {
		s2, err := a.net.FastNetworkSolver()
		if err != nil {
			return fmt.Errorf("FastNetworkSolver (second solver of the same network): %v", err)
		}
		b = netOrSolver{net: a.net, solver: s2}
		rec.Class("fresh solver derived from the network object of the flushed one")
	}
	_, cyclic := c.Net.topoOrder()
	cyclic = !cyclic && c.Modular == nil
	switch {
	case c.Modular != nil:
		rec.Class("modular network")
	case cyclic:
		rec.Class("network with cycles")
	default:
		rec.Class("feed-forward network")
	}
	if c.Fast && c.Direct && c.Modular == nil {
		rec.Class("fast solver built with the public constructor (bias links as ordinary connections)")
	}
	if c.Modular == nil && len(c.Net.Nodes) > 130 {
		rec.Class("network with more than 128 neurons")
	}
	for _, n := range c.Net.Nodes {
		if n.Act == 0 && !isSensorRole(n.Role) && c.Modular == nil {
			rec.Class("neuron with an unregistered activation type (activations fail)")
			break
		}
	}
	if c.Fast {
		rec.Class("fast solver")
	} else {
		rec.Class("standard solver")
	}
	if activatedAfterLoad {
		rec.Class("history activates after a sensor load")
	}
	if cyclic && activatedAfterLoad {
		rec.NonTrivial(hashOf(c.Fast, len(c.Net.Nodes), len(c.Net.Links), len(c.History), len(c.Seq)))
	}
	for i, op := range c.Seq {
		oa, ob := applyNetOp(a, op), applyNetOp(b, op)
		if oa != ob {
			return fmt.Errorf("step %d (%s) after flush reports %q, a fresh instance reports %q", i, op.Kind, oa, ob)
		}
		ra, rb := a.solver.ReadOutputs(), b.solver.ReadOutputs()
		if !bitsEqual(ra, rb) {
			return fmt.Errorf("step %d (%s): outputs after flush %v differ from a fresh instance's %v", i, op.Kind, ra, rb)
		}
	}
	return nil
}

func TestC13(t *testing.T) {
	runProp(t, "C13", "flush", 8000, 200000, GenC13(), CheckC13)
}

/* "Evaluating the same organism repeatedly on the same inputs gives identical results" */

type C13Org struct {
	G      GenomeSpec  `json:"genome"`
	Inputs [][]float64 `json:"inputs"`
	Steps  int         `json:"steps"`
}

func GenC13Org() *rapid.Generator[C13Org] {
	gg := genGenomeSpec(GenomeCfg{MinGenes: 1, ModestWeight: true})
	return rapid.Custom(func(t *rapid.T) C13Org {
		c := C13Org{G: gg.Draw(t, "genome"), Steps: rapid.IntRange(1, 5).Draw(t, "steps")}
		nIn := 0
		for _, n := range c.G.Nodes {
			if n.Role == roleInput {
				nIn++
			}
		}
		rows := rapid.IntRange(1, 4).Draw(t, "rows")
		for r := 0; r < rows; r++ {
			row := make([]float64, nIn)
			for i := range row {
				row[i] = rapid.Float64Range(-2, 2).Draw(t, "x")
			}
			c.Inputs = append(c.Inputs, row)
		}
		return c
	})
}

func CheckC13Org(c C13Org, rec *Rec) error {
	org, err := genetics.NewOrganism(0, c.G.Build(), 1)
	if err != nil {
		return err
	}
	evaluate := func() (string, error) {
		net, err := org.Phenotype()
		if err != nil {
			return "", err
		}
		obs := ""
		for _, row := range c.Inputs {
			if err := net.LoadSensors(row); err != nil {
				return "", err
			}
			ok, err := net.ForwardSteps(c.Steps)
			obs += fmt.Sprintf("%v:%s:", ok, errText(err))
			for _, v := range net.ReadOutputs() {
				obs += fmt.Sprintf("%x,", math.Float64bits(v))
			}
			if _, err := net.Flush(); err != nil {
				return "", fmt.Errorf("Flush: %v", err)
			}
		}
		return obs, nil
	}
	first, err := evaluate()
	if err != nil {
		return err
	}
	recurrent := 0
	for _, g := range c.G.Genes {
		if g.En && (g.Rec || g.In == g.Out) {
			recurrent++
		}
	}
	if recurrent > 0 {
		rec.Class("recurrent organism")
		rec.NonTrivial(hashOf(len(c.G.Nodes), len(c.G.Genes), recurrent, c.Steps, len(c.Inputs)))
	}
	for i := 0; i < 2; i++ {
		again, err := evaluate()
		if err != nil {
			return err
		}
		if again != first {
			return fmt.Errorf("evaluation %d of the same organism on the same inputs gives %s, the first gave %s", i+2, again, first)
		}
	}
	return nil
}

func TestC13Org(t *testing.T) {
	runProp(t, "C13", "organism", 2000, 40000, GenC13Org(), CheckC13Org)
}

func init() {
	registerReplay("C13", "flush", CheckC13)
	registerReplay("C13", "organism", CheckC13Org)
}
