package props

import (
	"errors"
	"fmt"
	"io"
	"math"
	"testing"

	"github.com/yaricom/goNEAT/v4/neat/network"
	"pgregory.net/rapid"
)

/* C14 - activation depth is the longest path to an output and always terminates */

type C14Case struct {
	Net  NetSpec `json:"net"`
	// Rel (as long as Caps, or absent): a non-zero entry r replaces the cap of that query by depth + r - 3 (r = 1..5: two
	// below the depth ... two above it), whatever the depth is - deep chains and dense graphs have depths far above 8
	Rel  []int   `json:"caps_relative_to_depth,omitempty"`
	Caps []int   `json:"caps"` // queries issued on one instance before the final uncapped one (0 = uncapped, -1 = the paths are printed with PrintAllActivationDepthPaths instead, a read-only dump that shares the traversal)
}

func GenC14() *rapid.Generator[C14Case] {
	dag := genNet(NetCfg{MinHidden: 1, AllowOrphans: true, LongChains: true, Rename: true, Dense: true, FlaggedLinks: true})
	cyc := genNet(NetCfg{MinHidden: 1, Cyclic: true, ParallelLinks: true, MaxHidden: 6, Rename: true})
	return rapid.Custom(func(t *rapid.T) C14Case {
		var c C14Case
		if rapid.IntRange(0, 2).Draw(t, "cyclic") == 0 {
			c.Net = cyc.Draw(t, "cyclic net")
		} else {
			c.Net = dag.Draw(t, "dag")
		}
		n := rapid.IntRange(0, 4).Draw(t, "queries")
		if n > 0 && rapid.Bool().Draw(t, "caps near the depth") {
			for i := 0; i < n; i++ {
				c.Rel = append(c.Rel, rapid.IntRange(0, 5).Draw(t, "relative cap"))
			}
		}
		for i := 0; i < n; i++ {
			c.Caps = append(c.Caps, rapid.OneOf(rapid.IntRange(-1, 8), rapid.IntRange(-1, 8), rapid.IntRange(-1, 8),
				rapid.SampledFrom([]int{math.MaxInt, math.MaxInt - 1, math.MaxInt32, math.MaxInt32 + 1, 1000, 65536})).Draw(t, "cap"))
		}
		return c
	})
}

func CheckC14(c C14Case, rec *Rec) error {
	build := func() (*network.Network, error) { return c.Net.Build() }
	first, err := build()
	if err != nil {
		return fmt.Errorf("building the network failed: %v", err)
	}
	D, err := first.MaxActivationDepth()
	if err != nil {
		return fmt.Errorf("MaxActivationDepth on a fresh network returned error %v", err)
	}
	// the instance that receives the query sequence: another fresh one (its first query may be a capped one that gives up),
	// or - every third time - the instance that has already answered the uncapped query
	net := first
	if hashOf(len(c.Net.Nodes), len(c.Net.Links), fmt.Sprint(c.Caps))%3 != 0 {
		if net, err = build(); err != nil {
			return fmt.Errorf("building the network failed: %v", err)
		}
		rec.Class("query sequence on an instance that was never queried before")
	}
	model, merr := c.Net.longestPathToOutputs()
	acyclic := merr == nil
	if c.Net.Renamed {
		rec.Class("node list does not start with the sensors")
	}
	if c.Net.Dormant && c.Net.ViaGenome {
		rec.Class("expressed from a genome that also carries a disabled module")
	}
	if len(c.Net.Nodes) > 32 {
		rec.Class("more than 32 nodes")
	}
	if len(c.Net.Links) > 100 {
		rec.Class("dense network (more than 100 links)")
	}
	if acyclic {
		rec.Class("acyclic")
		if D != model {
			return fmt.Errorf("MaxActivationDepth = %d, the longest path ending in an output has %d links", D, model)
		}
	} else {
		rec.Class("cyclic")
		if D < 0 || D > len(c.Net.Nodes) {
			return fmt.Errorf("MaxActivationDepth = %d on a graph with cycles and %d nodes", D, len(c.Net.Nodes))
		}
	}
	// caps on fresh instances
	for cap := 1; cap <= D+2 && cap <= 10; cap++ {
		n2, _ := build()
		got, err := n2.MaxActivationDepthWithCap(cap)
		if D <= cap {
			if err != nil || got != D {
				return fmt.Errorf("cap %d on a fresh network with depth %d returns (%d, %v)", cap, D, got, err)
			}
		} else {
			if !errors.Is(err, network.ErrMaximalNetDepthExceeded) || got != cap {
				return fmt.Errorf("cap %d on a fresh network with depth %d returns (%d, %v), expected (%d, depth exceeded)", cap, D, got, err, cap)
			}
			rec.Class("cap below the depth")
		}
	}
	if D > 8 {
		// deep networks: the caps around the depth and half way
		for _, cap := range []int{D - 2, D - 1, D, D + 1, D / 2, 2 * D} {
			n2, _ := build()
			got, err := n2.MaxActivationDepthWithCap(cap)
			if D <= cap {
				if err != nil || got != D {
					return fmt.Errorf("cap %d on a fresh network with depth %d returns (%d, %v)", cap, D, got, err)
				}
			} else if !errors.Is(err, network.ErrMaximalNetDepthExceeded) || got != cap {
				return fmt.Errorf("cap %d on a fresh network with depth %d returns (%d, %v), expected (%d, depth exceeded)", cap, D, got, err, cap)
			}
		}
		rec.Class("caps around a depth above 8")
	}
	for _, cap := range []int{math.MaxInt, math.MaxInt32} {
		n2, _ := build()
		if got, err := n2.MaxActivationDepthWithCap(cap); err != nil || got != D {
			return fmt.Errorf("cap %d on a fresh network with depth %d returns (%d, %v)", cap, D, got, err)
		}
	}
	// idempotence: any sequence of queries on one instance, then the uncapped answer again
	capHit := false
	for i, cap := range c.Caps {
		if i < len(c.Rel) && c.Rel[i] > 0 && D+c.Rel[i]-3 > 0 {
			cap = D + c.Rel[i] - 3
		}
		if cap < 0 {
			if len(c.Net.Links) > 60 {
				continue // the dump of a dense network is long; the depth queries are what is checked there
			}
			if err := network.PrintAllActivationDepthPaths(net, io.Discard); err != nil {
				return fmt.Errorf("PrintAllActivationDepthPaths returned error %v", err)
			}
			rec.Class("paths printed between the queries")
			continue
		}
		got, err := net.MaxActivationDepthWithCap(cap)
		if cap > 0 && cap < D {
			capHit = true
			if !errors.Is(err, network.ErrMaximalNetDepthExceeded) || got != cap {
				return fmt.Errorf("query %d with cap %d (after caps %v) returns (%d, %v); a fresh network of depth %d reports (%d, depth exceeded)", i, cap, c.Caps[:i], got, err, D, cap)
			}
		} else if err != nil || got != D {
			return fmt.Errorf("query %d with cap %d (after caps %v) returns (%d, %v); a fresh network reports depth %d", i, cap, c.Caps[:i], got, err, D)
		}
	}
	again, err := net.MaxActivationDepth()
	if err != nil || again != D {
		return fmt.Errorf("after the queries with caps %v the depth is reported as (%d, %v), a fresh network reports %d", c.Caps, again, err, D)
	}
	if capHit {
		rec.Class("capped query hit the cap before the final query")
	}
	if D >= 3 && capHit {
		rec.NonTrivial(hashOf(len(c.Net.Nodes), len(c.Net.Links), D, acyclic, fmt.Sprint(c.Caps)))
	}
	if D >= 3 {
		rec.Class("depth >= 3")
	}
	return nil
}

func TestC14(t *testing.T) {
	runProp(t, "C14", "depth", 8000, 200000, GenC14(), CheckC14)
}

func init() { registerReplay("C14", "depth", CheckC14) }
