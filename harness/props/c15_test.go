package props

import (
	"bytes"
	"fmt"
	"math"
	"sort"
	"testing"

	"github.com/yaricom/goNEAT/v4/experiment"
	"github.com/yaricom/goNEAT/v4/neat/genetics"
	"github.com/yaricom/goNEAT/v4/neat/network"
	"pgregory.net/rapid"
)

/* C15 - everything the library writes it reads back unchanged */

// ---- genomes, plain and YAML ----

type C15Genome struct {
	G    GenomeSpec `json:"genome"`
	YAML bool       `json:"yaml"`
}

func GenC15Genome() *rapid.Generator[C15Genome] {
	plain := genGenomeSpec(GenomeCfg{MinGenes: 1, Big: true, LargeNumbers: true})
	modular := genGenomeSpec(GenomeCfg{MinGenes: 1, Modules: true, Big: true, LargeNumbers: true})
	return rapid.Custom(func(t *rapid.T) C15Genome {
		if rapid.Bool().Draw(t, "yaml") {
			g := modular.Draw(t, "genome")
			if len(g.Modules) > 0 && rapid.IntRange(0, 3).Draw(t, "node added after the modules") == 0 {
				// a hidden node whose id is larger than the control nodes' ids, as an add-node mutation of a modular genome
				// creates it (the population's id counter starts behind the control nodes)
				maxNode, maxInnov := maxIds(g)
				var sensor, out int
				for _, n := range g.Nodes {
					if isSensorRole(n.Role) && sensor == 0 {
						sensor = n.Id
					}
					if n.Role == roleOutput {
						out = n.Id
					}
				}
				if sensor != 0 && out != 0 && maxInnov < math.MaxInt64-4 && maxNode < math.MaxInt32-2 {
					g.Nodes = append(g.Nodes, NodeSpec{Id: maxNode + 1, Role: roleHidden, Act: 4, Trait: g.Nodes[0].Trait})
					g.Genes = append(g.Genes, GeneSpec{In: sensor, Out: maxNode + 1, W: 0.5, Innov: maxInnov + 1, Mut: 0.5, En: true, Trait: g.Genes[0].Trait},
						GeneSpec{In: maxNode + 1, Out: out, W: -0.25, Innov: maxInnov + 2, Mut: -0.25, En: true, Trait: g.Genes[0].Trait})
				}
			}
			return C15Genome{G: g, YAML: true}
		}
		return C15Genome{G: plain.Draw(t, "genome")}
	})
}

func hasLongWeight(s GenomeSpec) bool {
	for _, g := range s.Genes {
		if g.W != float64(float32(g.W)) && math.Abs(g.W) < 1e15 {
			return true
		}
	}
	return false
}

func roundTripClasses(s GenomeSpec, rec *Rec) {
	for _, m := range s.Modules {
		for _, n := range s.Nodes {
			if n.Id > m.Id {
				rec.Class("ordinary node with a larger id than a control node")
				break
			}
		}
		break
	}
	for _, n := range s.Nodes {
		if n.Id > 32767 {
			rec.Class("node id above 32767")
			break
		}
	}
	for _, g := range s.Genes {
		if g.Innov > math.MaxInt32 {
			rec.Class("innovation number above 2^31")
			break
		}
	}
	disabled, recurrent, nilTraits := specFeatures(s)
	if disabled > 0 {
		rec.Class("disabled gene")
	}
	if recurrent > 0 {
		rec.Class("recurrent gene")
	}
	if nilTraits > 0 {
		rec.Class("nil trait")
	}
	if len(s.Modules) > 0 {
		rec.Class("modular")
	}
	if len(s.Genes) == 0 {
		rec.Class("gene-less genome")
	}
	if hasLongWeight(s) && (disabled > 0 || recurrent > 0) {
		rec.NonTrivial(hashOf(len(s.Nodes), len(s.Genes), len(s.Modules), disabled, recurrent, nilTraits))
	}
}

func CheckC15Genome(c C15Genome, rec *Rec) error {
	g := c.G.Build()
	enc, name := genetics.PlainGenomeEncoding, "plain"
	if c.YAML {
		enc, name = genetics.YAMLGenomeEncoding, "YAML"
	}
	rec.Class("encoding:" + name)
	roundTripClasses(c.G, rec)
	var buf bytes.Buffer
	w, err := genetics.NewGenomeWriter(&buf, enc)
	if err != nil {
		return err
	}
	if err = w.WriteGenome(g); err != nil {
		return fmt.Errorf("%s writer returned error: %v", name, err)
	}
	text := buf.String()
	r, err := genetics.NewGenomeReader(bytes.NewBufferString(text), enc)
	if err != nil {
		return err
	}
	back, err := r.Read()
	if err != nil {
		return fmt.Errorf("%s reader returned error: %v\n%s", name, err, firstLines(text, 30))
	}
	if back.Id != c.G.Id {
		return fmt.Errorf("%s: genome id %d read back as %d", name, c.G.Id, back.Id)
	}
	if d := DiffSpec(c.G, Snapshot(back)); d != "" {
		return fmt.Errorf("%s round trip changed the genome: %s", name, d)
	}
	if len(back.Genes) > 0 {
		if err := WellFormed(back, IORolesOf(c.G)); err != nil {
			return fmt.Errorf("%s: genome read back is not well-formed: %v", name, err)
		}
	}
	if !c.YAML {
		// the legacy entry points use the same plain encoding
		var b2 bytes.Buffer
		if err := g.Write(&b2); err != nil {
			return err
		}
		back2, err := genetics.ReadGenome(&b2, 4711)
		if err != nil {
			return fmt.Errorf("ReadGenome returned error: %v", err)
		}
		if d := DiffSpec(c.G, Snapshot(back2)); d != "" || back2.Id != 4711 {
			return fmt.Errorf("Genome.Write/ReadGenome round trip changed the genome (id %d): %s", back2.Id, d)
		}
	}
	return nil
}

// ---- organisms ----

type C15Org struct {
	Org OrgSpec `json:"organism"`
	// Others are encoded after Org and before anything is decoded (a batch, as when several organisms are handed over
	// at once): the encoded form of one organism is a value of its own
	Others []OrgSpec `json:"others,omitempty"`
	// UsedReceiver: the bytes are decoded into organism values that already hold another genome with the same genome id
	// (an organism updated from the wire) instead of into fresh values
	UsedReceiver bool `json:"decode_into_used_organisms,omitempty"`
}

func genC15Org() *rapid.Generator[C15Org] {
	og := genOrgSpec()
	return rapid.Custom(func(t *rapid.T) C15Org {
		c := C15Org{Org: og.Draw(t, "organism"), UsedReceiver: rapid.IntRange(0, 2).Draw(t, "used receiver") == 0}
		n := rapid.IntRange(0, 3).Draw(t, "others")
		for i := 0; i < n; i++ {
			c.Others = append(c.Others, og.Draw(t, "other"))
		}
		return c
	})
}

func compareRestoredOrg(spec OrgSpec, org *genetics.Organism, data []byte, receiver *genetics.Organism) error {
	var back genetics.Organism
	if receiver != nil {
		back = *receiver
	}
	if err := back.UnmarshalBinary(data); err != nil {
		return fmt.Errorf("UnmarshalBinary: %v", err)
	}
	if back.Fitness != org.Fitness || back.Generation != org.Generation {
		return fmt.Errorf("organism (fitness %v, generation %d) restored as (fitness %v, generation %d)", org.Fitness, org.Generation, back.Fitness, back.Generation)
	}
	if back.Genotype == nil {
		return fmt.Errorf("restored organism has no genome")
	}
	if d := DiffSpec(spec.Genome, Snapshot(back.Genotype)); d != "" || back.Genotype.Id != spec.Genome.Id {
		return fmt.Errorf("binary round trip changed the genome (id %d -> %d): %s", spec.Genome.Id, back.Genotype.Id, d)
	}
	return nil
}

func CheckC15Org(c C15Org, rec *Rec) error {
	roundTripClasses(c.Org.Genome, rec)
	specs := append([]OrgSpec{c.Org}, c.Others...)
	orgs := make([]*genetics.Organism, len(specs))
	encoded := make([][]byte, len(specs))
	for i, sp := range specs {
		orgs[i] = sp.Build()
		data, err := orgs[i].MarshalBinary()
		if err != nil {
			return fmt.Errorf("MarshalBinary: %v", err)
		}
		encoded[i] = data
	}
	if len(specs) > 1 {
		rec.Class("several organisms encoded before the first is decoded")
	}
	for i := range specs {
		var receiver *genetics.Organism
		if c.UsedReceiver {
			// an organism holding another genome (a one-gene one) under the same genome id
			other := GenomeSpec{Id: specs[i].Genome.Id, Traits: []TraitSpec{{Id: 1, Params: make([]float64, 8)}},
				Nodes: []NodeSpec{{Id: 1, Role: roleInput, Act: 17}, {Id: 2, Role: roleOutput, Act: 4}},
				Genes: []GeneSpec{{In: 1, Out: 2, W: 0.25, Innov: 1, Mut: 0.25, En: true, Trait: 1}}}
			receiver, _ = genetics.NewOrganism(-1, other.Build(), 77)
			rec.Class("decoded into an organism that already holds a genome with the same id")
		}
		if err := compareRestoredOrg(specs[i], orgs[i], encoded[i], receiver); err != nil {
			return fmt.Errorf("organism %d of %d encoded in a row: %v", i, len(specs), err)
		}
	}
	return nil
}

// ---- populations ----

type C15Pop struct {
	Genomes   []GenomeSpec `json:"genomes"`
	Fitness   []float64    `json:"fitness"`
	Opts      OptSpec      `json:"opts"`
	BySpecies bool         `json:"by_species"`
	// Winner: index+1 of the organism that is marked as the winner (the dump of a solved generation), 0 = none
	Winner int `json:"winner,omitempty"`
}

func GenC15Pop() *rapid.Generator[C15Pop] {
	fam := genFamily(6, 10)
	og := genOpts(OptsCfg{})
	return rapid.Custom(func(t *rapid.T) C15Pop {
		f := fam.Draw(t, "family")
		n := rapid.IntRange(1, len(f)).Draw(t, "n")
		c := C15Pop{Genomes: f[:n], Opts: og.Draw(t, "opts"), BySpecies: rapid.Bool().Draw(t, "by species")}
		for i := range c.Genomes {
			c.Genomes[i].Id = i + rapid.IntRange(0, 1).Draw(t, "id base")*10
			c.Fitness = append(c.Fitness, float64(rapid.IntRange(0, 20).Draw(t, "fitness")))
		}
		if rapid.IntRange(0, 2).Draw(t, "winner") == 0 {
			c.Winner = 1 + rapid.IntRange(0, n-1).Draw(t, "winner index")
		}
		if !c.BySpecies && n > 1 && rapid.IntRange(0, 3).Draw(t, "shared genome ids") == 0 {
			// genome ids are plain numbers, not keys: organisms collected from several runs, or copies of one genome,
			// share them (the library itself numbers the babies of every species from 0)
			k := rapid.IntRange(1, n-1).Draw(t, "ids modulo")
			for i := range c.Genomes {
				c.Genomes[i].Id = i % k
			}
		}
		return c
	})
}

func CheckC15Pop(c C15Pop, rec *Rec) error {
	opts := c.Opts.Build()
	pop := populationFor(c.Genomes...)
	var orgs []*genetics.Organism
	for i, g := range c.Genomes {
		o, _ := genetics.NewOrganism(c.Fitness[i], g.Build(), 1)
		if c.Winner == i+1 {
			o.IsWinner = true
			rec.Class("population with a winner organism")
		}
		orgs = append(orgs, o)
	}
	pop.VerifAddOrganisms(orgs)
	if err := pop.VerifSpeciate(opts.NeatContext(), orgs); err != nil {
		return fmt.Errorf("speciate: %v", err)
	}
	var buf bytes.Buffer
	var err error
	if c.BySpecies {
		rec.Class("written by species (with comments)")
		err = pop.WriteBySpecies(&buf)
	} else {
		rec.Class("written genome by genome")
		err = pop.Write(&buf)
	}
	if err != nil {
		return fmt.Errorf("writing the population: %v", err)
	}
	back, err := genetics.ReadPopulation(bytes.NewReader(buf.Bytes()), opts)
	if err != nil {
		return fmt.Errorf("ReadPopulation: %v", err)
	}
	if len(back.Organisms) != len(c.Genomes) {
		return fmt.Errorf("%d genomes written, %d organisms read", len(c.Genomes), len(back.Organisms))
	}
	multiTrait := false
	for _, g := range c.Genomes {
		roundTripClasses(g, rec)
		multiTrait = multiTrait || len(g.Traits) > 1
	}
	if len(c.Genomes) > 1 {
		rec.NonTrivial(hashOf(len(c.Genomes), len(c.Genomes[0].Genes), len(c.Genomes[0].Traits), c.BySpecies))
	}
	byId := map[int]GenomeSpec{}
	for _, g := range c.Genomes {
		if _, dup := byId[g.Id]; dup {
			rec.Class("two genomes of the population carry the same id")
		}
		byId[g.Id] = g
	}
	for i, o := range back.Organisms {
		want, ok := c.Genomes[i], true
		if c.BySpecies {
			want, ok = byId[o.Genotype.Id] // species order differs from population order
		}
		if !ok || o.Genotype.Id != want.Id {
			return fmt.Errorf("organism %d read back has genome id %d", i, o.Genotype.Id)
		}
		if d := DiffSpec(want, Snapshot(o.Genotype)); d != "" {
			return fmt.Errorf("population round trip changed genome %d: %s", want.Id, d)
		}
		if o.Species == nil {
			return fmt.Errorf("organism %d read back belongs to no species", i)
		}
	}
	return nil
}

// ---- fast solver models ----

type C15Solver struct {
	Net     NetSpec     `json:"net"`
	Modular *GenomeSpec `json:"modular,omitempty"`
	Ops     []NetOp     `json:"ops"`
	// Other, when present, is another network whose model file is written and read after the model under test was restored
	// and before the restored solver is used: a restored solver is a value of its own
	Other *NetSpec `json:"other_model_read_in_between,omitempty"`
}

func GenC15Solver() *rapid.Generator[C15Solver] {
	cyc := genNet(NetCfg{Cyclic: true, Rename: true, BigRecurrent: true})
	dag := genNet(NetCfg{Rename: true, Wide: true})
	mod := genGenomeSpec(GenomeCfg{Modules: true, MinGenes: 1, SingleOutMod: true, ModestWeight: true})
	return rapid.Custom(func(t *rapid.T) C15Solver {
		var c C15Solver
		nIn, nSensors := 0, 0
		switch rapid.IntRange(0, 2).Draw(t, "topology") {
		case 0:
			c.Net = dag.Draw(t, "dag")
		case 1:
			c.Net = cyc.Draw(t, "cyclic")
		default:
			g := mod.Draw(t, "modular genome")
			c.Modular = &g
		}
		if rapid.IntRange(0, 2).Draw(t, "second model") == 0 {
			o := cyc.Draw(t, "other net")
			c.Other = &o
		}
		if c.Modular != nil {
			for _, n := range c.Modular.Nodes {
				if n.Role == roleInput {
					nIn++
				}
			}
		} else {
			nIn, _, _, _ = c.Net.counts()
		}
		nSensors = nIn
		c.Ops = drawNetOps(t, "ops", rapid.IntRange(1, 8).Draw(t, "ops len"), nIn, nSensors, true)
		return c
	})
}

func CheckC15Solver(c C15Solver, rec *Rec) error {
	x, err := C13Case{Net: c.Net, Modular: c.Modular, Fast: true}.fresh()
	if err != nil {
		return fmt.Errorf("building the solver failed: %v", err)
	}
	orig := x.solver.(*network.FastModularNetworkSolver)
	orig.Id, orig.Name = 42, "model under test"
	var buf bytes.Buffer
	if err = orig.WriteModel(&buf); err != nil {
		return fmt.Errorf("WriteModel: %v", err)
	}
	back, err := network.ReadFMNSModel(bytes.NewReader(buf.Bytes()))
	if err != nil {
		return fmt.Errorf("ReadFMNSModel: %v", err)
	}
	if back.NodeCount() != orig.NodeCount() || back.LinkCount() != orig.LinkCount() || back.Id != orig.Id || back.Name != orig.Name {
		return fmt.Errorf("restored solver has (%d nodes, %d links, id %d, name %q), the original (%d, %d, %d, %q)",
			back.NodeCount(), back.LinkCount(), back.Id, back.Name, orig.NodeCount(), orig.LinkCount(), orig.Id, orig.Name)
	}
	if c.Other != nil {
		if y, err := (C13Case{Net: *c.Other, Fast: true}).fresh(); err == nil {
			var buf2 bytes.Buffer
			if err = y.solver.(*network.FastModularNetworkSolver).WriteModel(&buf2); err == nil {
				if _, err = network.ReadFMNSModel(bytes.NewReader(buf2.Bytes())); err == nil {
					rec.Class("another model file read before the restored solver is used")
				}
			}
		}
	}
	if c.Modular != nil {
		rec.Class("modular solver")
	}
	hasBias := false
	for _, n := range c.Net.Nodes {
		hasBias = hasBias || n.Role == roleBias
	}
	if hasBias {
		rec.Class("solver with bias")
	}
	rec.NonTrivial(hashOf(orig.NodeCount(), orig.LinkCount(), len(c.Ops), c.Modular != nil))
	a, b := netOrSolver{solver: orig}, netOrSolver{solver: back}
	for i, op := range c.Ops {
		oa, ob := applyNetOp(a, op), applyNetOp(b, op)
		if oa != ob {
			return fmt.Errorf("step %d (%s): the original reports %q, the restored solver %q", i, op.Kind, oa, ob)
		}
		if ra, rb := orig.ReadOutputs(), back.ReadOutputs(); !bitsEqual(ra, rb) {
			return fmt.Errorf("step %d (%s): original outputs %v, restored solver outputs %v", i, op.Kind, ra, rb)
		}
	}
	return nil
}

// ---- experiments ----

type expDigest struct {
	solved                             int
	bestFitness, bestComplexity, avgDv []float64
	wn, wg, we, wd                     float64
	perTrial                           []string
}

func digestExperiment(e *experiment.Experiment) (d expDigest, err error) {
	_, err = call("derived statistics", func() int {
		d.solved = e.TrialsSolved()
		d.bestFitness = e.BestFitness()
		d.bestComplexity = e.BestComplexity()
		d.avgDv = e.AvgDiversity()
		d.wn, d.wg, d.we, d.wd = e.AvgWinnerStatistics()
		for i := range e.Trials {
			t := &e.Trials[i]
			f, _, cpl := t.Average()
			n, g, ev, dv := t.WinnerStatistics()
			d.perTrial = append(d.perTrial, fmt.Sprint(t.Solved(), t.ChampionsFitness(), t.ChampionsComplexities(), t.Diversity(), f, cpl, n, g, ev, dv))
		}
		return 0
	})
	return
}

func floatsSame(a, b []float64) bool {
	if len(a) != len(b) {
		return false
	}
	for i := range a {
		if !sameFloat(a[i], b[i]) {
			return false
		}
	}
	return true
}

func CheckC15Exp(c C19Exp, rec *Rec) error {
	e := c.Exp.Build()
	before, err := digestExperiment(e)
	if err != nil {
		return err
	}
	e = c.Exp.Build() // the accessors cache the winner generation; encode a pristine record
	var buf bytes.Buffer
	if err = e.Write(&buf); err != nil {
		return fmt.Errorf("Experiment.Write: %v", err)
	}
	var back experiment.Experiment
	switch c.Receiver {
	case 1:
		if err = back.Read(bytes.NewReader(buf.Bytes())); err != nil {
			return fmt.Errorf("Experiment.Read: %v", err)
		}
		if _, derr := digestExperiment(&back); derr != nil {
			return derr
		}
		rec.Class("record read into a value that already holds it")
	case 2:
		longer := c.Exp
		longer.Id, longer.Name = c.Exp.Id+1, c.Exp.Name+"'"
		longer.Trials = append(append([]TrialSpec{}, c.Exp.Trials...), c.Exp.Trials...)
		for i := range longer.Trials {
			longer.Trials[i].Id += 100
		}
		// the record held before describes other winners (other numbers, other solved generations), and the value was asked for
		// its statistics before it is read into - whatever it remembered belongs to the old record
		longer.Trials = append([]TrialSpec{}, longer.Trials...)
		for i := range longer.Trials {
			gs := append([]GenSpec{}, longer.Trials[i].Generations...)
			for j := range gs {
				gs[j].WinnerNodes, gs[j].WinnerGenes, gs[j].WinnerEvals, gs[j].Diversity = gs[j].WinnerNodes+1000, gs[j].WinnerGenes+2000, gs[j].WinnerEvals+3000, gs[j].Diversity+7
				if (i+j)%3 == 0 {
					gs[j].Solved = !gs[j].Solved
				}
			}
			longer.Trials[i].Generations = gs
		}
		back = *longer.Build()
		if _, derr := digestExperiment(&back); derr != nil {
			return derr
		}
		rec.Class("record read into a value that holds a longer record")
	case 3:
		if n := buf.Len(); n > 8 {
			if err = back.Read(bytes.NewReader(buf.Bytes()[:n-n/4-1])); err != nil {
				rec.Class("record read into a value left behind by a failed read")
			}
		}
	}
	if err = back.Read(bytes.NewReader(buf.Bytes())); err != nil {
		return fmt.Errorf("Experiment.Read: %v", err)
	}
	if back.Id != c.Exp.Id || back.Name != c.Exp.Name || len(back.Trials) != len(c.Exp.Trials) {
		return fmt.Errorf("experiment (id %d, name %q, %d trials) restored as (id %d, name %q, %d trials)",
			c.Exp.Id, c.Exp.Name, len(c.Exp.Trials), back.Id, back.Name, len(back.Trials))
	}
	gens := 0
	for i, ts := range c.Exp.Trials {
		bt := back.Trials[i]
		if bt.Id != ts.Id || len(bt.Generations) != len(ts.Generations) {
			return fmt.Errorf("trial %d (id %d, %d generations) restored as (id %d, %d generations)", i, ts.Id, len(ts.Generations), bt.Id, len(bt.Generations))
		}
		for j, gs := range ts.Generations {
			gens++
			want, got := gs.Build(), bt.Generations[j]
			if got.Id != want.Id || !got.Executed.Equal(want.Executed) || got.Duration != want.Duration || got.Solved != want.Solved ||
				got.Diversity != want.Diversity || got.WinnerEvals != want.WinnerEvals || got.WinnerNodes != want.WinnerNodes ||
				got.WinnerGenes != want.WinnerGenes || got.TrialId != want.TrialId ||
				!floatsSame(got.Fitness, want.Fitness) || !floatsSame(got.Age, want.Age) || !floatsSame(got.Complexity, want.Complexity) {
				return fmt.Errorf("trial %d generation %d changed in the round trip: wrote %+v, read %+v", i, j, gs, got)
			}
			ch := got.Champion
			if ch == nil || ch.Genotype == nil {
				return fmt.Errorf("trial %d generation %d lost its champion", i, j)
			}
			if ch.Fitness != gs.Champion.Fitness || ch.IsWinner != gs.Champion.IsWinner || ch.Generation != gs.Champion.Generation ||
				ch.ExpectedOffspring != gs.Champion.ExpectedOffspring || ch.Error != gs.Champion.Error {
				return fmt.Errorf("trial %d generation %d: champion fields changed: wrote %+v, read fitness %v winner %v generation %d expected %v error %v",
					i, j, gs.Champion, ch.Fitness, ch.IsWinner, ch.Generation, ch.ExpectedOffspring, ch.Error)
			}
			if d := DiffSpec(gs.Champion.Genome, Snapshot(ch.Genotype)); d != "" || ch.Genotype.Id != gs.Champion.Genome.Id {
				return fmt.Errorf("trial %d generation %d: champion genome changed: %s", i, j, d)
			}
		}
	}
	after, err := digestExperiment(&back)
	if err != nil {
		return err
	}
	if before.solved != after.solved || !floatsSame(before.bestFitness, after.bestFitness) || !floatsSame(before.bestComplexity, after.bestComplexity) ||
		!floatsSame(before.avgDv, after.avgDv) || !sameFloat(before.wn, after.wn) || !sameFloat(before.wg, after.wg) ||
		!sameFloat(before.we, after.we) || !sameFloat(before.wd, after.wd) {
		return fmt.Errorf("derived statistics changed in the round trip: before %+v, after %+v", before, after)
	}
	sort.Strings(before.perTrial)
	sort.Strings(after.perTrial)
	if fmt.Sprint(before.perTrial) != fmt.Sprint(after.perTrial) {
		return fmt.Errorf("per-trial statistics changed in the round trip:\n%v\n%v", before.perTrial, after.perTrial)
	}
	if gens >= 2 {
		rec.NonTrivial(hashOf(len(c.Exp.Trials), gens, before.solved))
	}
	if before.solved > 0 {
		rec.Class("solved trials")
	}
	return nil
}

func TestC15Genome(t *testing.T) {
	runProp(t, "C15", "genome", 5000, 100000, GenC15Genome(), CheckC15Genome)
}

func TestC15Org(t *testing.T) {
	runProp(t, "C15", "organism", 1500, 30000, genC15Org(), CheckC15Org)
}

func TestC15Pop(t *testing.T) {
	runProp(t, "C15", "population", 800, 16000, GenC15Pop(), CheckC15Pop)
}

func TestC15Solver(t *testing.T) {
	runProp(t, "C15", "solver", 2000, 40000, GenC15Solver(), CheckC15Solver)
}

func TestC15Exp(t *testing.T) {
	runProp(t, "C15", "experiment", 500, 10000, genC19Exp(), CheckC15Exp)
}

func init() {
	registerReplay("C15", "genome", CheckC15Genome)
	registerReplay("C15", "organism", CheckC15Org)
	registerReplay("C15", "population", CheckC15Pop)
	registerReplay("C15", "solver", CheckC15Solver)
	registerReplay("C15", "experiment", CheckC15Exp)
}
