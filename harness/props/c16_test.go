package props

import (
	"errors"
	"fmt"
	"testing"

	"github.com/yaricom/goNEAT/v4/neat"
	"github.com/yaricom/goNEAT/v4/neat/genetics"
)

/* C16 - the parallel epoch executor is race-free and preserves all population guarantees.
   This test is built with -race by the driver: a data race makes the process exit with status 66 and a report. */

func CheckC16(sc Scenario, rec *Rec) error {
	if !sc.Opts.Parallel {
		return fmt.Errorf("harness: C16 scenario without the parallel executor")
	}
	var anc IORoles
	var tr *c02Tracker
	led := newLedger()
	champs := &championTracker{}
	distinct := sc.Fit.Kind == "distinct" || sc.Fit.Kind == "stagnating"
	lineages := 0
	return runScenario(sc, epochHooks{
		turnoverMustSucceed: true,
		built: func(pop *genetics.Population, _ *neat.Options) error {
			anc = ancestorsOf(pop)
			tr = newC02Tracker(pop)
			return led.update(pop, false, rec)
		},
		before: func(e int, pop *genetics.Population) error {
			tr.snapshot(pop)
			champs.snapshot(pop)
			lineages = len(pop.Species)
			switch n := len(pop.Species); {
			case n == 1:
				rec.Class("species:1")
			case n <= 5:
				rec.Class("species:2-5")
			default:
				rec.Class("species:6+")
			}
			return nil
		},
		after: func(e int, pop *genetics.Population) error {
			if err := checkAllWellFormed(pop, anc); err != nil {
				return fmt.Errorf("well-formedness (C01): %v", err)
			}
			if err := tr.check(pop, sc.Opts.PopSize, e == 0, rec); err != nil {
				return fmt.Errorf("population guarantees (C02): %v", err)
			}
			prevInnov := led.maxInnov
			if err := led.update(pop, true, rec); err != nil {
				var two *sameLinkTwoNumbers
				if !errors.As(err, &two) { // identical numbers for identical innovations are promised for the sequential executor only
					return fmt.Errorf("innovation numbers (C03): %v", err)
				}
			}
			if n := len(pop.Innovations()); n != 0 {
				return fmt.Errorf("innovation numbers (C03): %d innovations are still recorded after the generation ended", n)
			}
			if distinct {
				if err := champs.check(e, pop, sc.Opts.BabiesStolen, rec); err != nil {
					return fmt.Errorf("champion preservation (C10): %v", err)
				}
			}
			// how many species (reproduction goroutines) produced a structural innovation in this turnover
			bySpecies := map[*genetics.Species]bool{}
			for _, o := range pop.Organisms {
				for _, g := range o.Genotype.Genes {
					if g.InnovationNum > prevInnov {
						bySpecies[o.Species] = true
					}
				}
			}
			if lineages >= 2 && led.maxInnov > prevInnov {
				rec.Class("turnover with several reproduction goroutines and new innovations")
				rec.NonTrivial(hashOf(e, lineages, len(bySpecies), led.maxInnov, len(pop.Organisms)))
			}
			return nil
		},
	}, rec)
}

func TestC16(t *testing.T) {
	runProp(t, "C16", "parallel", 60, 400, genScenario(ScenarioCfg{MaxEpochs: pick(12, 30), Parallel: 2, Structural: true, MaxPop: pick(30, 60), CancelTail: true, Warm: true, Retry: true, BigPops: true}), CheckC16)
}

func init() { registerReplay("C16", "parallel", CheckC16) }
