package props

import (
	"fmt"
	"testing"

	"github.com/yaricom/goNEAT/v4/neat"
	"github.com/yaricom/goNEAT/v4/neat/genetics"
	"pgregory.net/rapid"
)

/* C16 (interleaved) - the harness owns the schedule.

   Under the parallel executor every species mutates its babies in its own goroutine; what the goroutines share is the
   population's innovation record and its two counters, reached through four calls (Innovations, StoreInnovation,
   NextInnovationNumber, NextNodeId), each of which is atomic. A concurrent turnover therefore behaves like SOME interleaving
   of these calls. Here the interleaving is generated: a structural mutation of one genome runs against a wrapper of a real
   population that, before chosen calls, lets "another species" perform a complete structural mutation of another genome.
   After every step the innovation numbers of all genomes must still denote one connection each and node ids one role each,
   and every genome must be well-formed. The race detector can not see such logical interference, and free-running
   goroutines hit one particular interleaving only by chance. */

type C16Interrupt struct {
	AtCall int    `json:"at_call"` // the other mutation runs right before the AtCall-th shared call of the interrupted one
	Actor  int    `json:"actor"`
	Kind   string `json:"kind"`
}

type C16Step struct {
	Actor      int            `json:"actor"`
	Kind       string         `json:"kind"`
	Seed       int64          `json:"seed"`
	Interrupts []C16Interrupt `json:"interrupts,omitempty"`
}

type C16Interleaved struct {
	Family []GenomeSpec `json:"family"`
	Steps  []C16Step    `json:"steps"`
}

var structuralKinds = []string{opAddNode, opAddNode, opAddLink, opAddLink, opConnectSensors}

func GenC16Interleaved() *rapid.Generator[C16Interleaved] {
	fam := genFamily(4, 6)
	return rapid.Custom(func(t *rapid.T) C16Interleaved {
		c := C16Interleaved{Family: fam.Draw(t, "family")}
		n := rapid.IntRange(1, pick(12, 30)).Draw(t, "steps")
		for i := 0; i < n; i++ {
			st := C16Step{Actor: rapid.IntRange(0, 7).Draw(t, "actor"), Kind: rapid.SampledFrom(structuralKinds).Draw(t, "kind"),
				Seed: int64(rapid.IntRange(0, 1<<30).Draw(t, "seed"))}
			for k := rapid.IntRange(0, 2).Draw(t, "interrupts"); k > 0; k-- {
				st.Interrupts = append(st.Interrupts, C16Interrupt{AtCall: rapid.IntRange(1, 5).Draw(t, "at call"),
					Actor: rapid.IntRange(0, 7).Draw(t, "other actor"), Kind: rapid.SampledFrom(structuralKinds).Draw(t, "other kind")})
			}
			c.Steps = append(c.Steps, st)
		}
		return c
	})
}

// interleaver passes the four shared calls through to a real population and runs the planned interruptions in between.
type interleaver struct {
	pop     *genetics.Population
	calls   int
	plan    map[int][]func()
	running bool
	fired   int
	handed  []handedOut
}

func (w *interleaver) tick() {
	if w.running {
		return
	}
	w.calls++
	for _, f := range w.plan[w.calls] {
		w.running = true
		f()
		w.running = false
		w.fired++
	}
}

func (w *interleaver) StoreInnovation(i genetics.Innovation) { w.tick(); w.pop.StoreInnovation(i) }
func (w *interleaver) Innovations() []genetics.Innovation {
	w.tick()
	got := w.pop.Innovations()
	// a record list that was handed out is scanned by its receiver without any lock while other goroutines store further
	// innovations: what was handed out must never be written to again (remembered here, compared when the step is over)
	w.handed = append(w.handed, handedOut{list: got, copy: append([]genetics.Innovation(nil), got...)})
	return got
}

type handedOut struct{ list, copy []genetics.Innovation }

// rewritten reports a record list that was modified after it had been handed out.
func (w *interleaver) rewritten() error {
	for _, h := range w.handed {
		for i := range h.copy {
			if h.list[i] != h.copy[i] {
				return fmt.Errorf("record %d of an innovation list handed out by Innovations() was rewritten in place afterwards (%+v became %+v): "+
					"a goroutine scanning that list reads it without a lock (data race under the parallel executor)", i, h.copy[i], h.list[i])
			}
		}
	}
	return nil
}
func (w *interleaver) NextInnovationNumber() int64           { w.tick(); return w.pop.NextInnovationNumber() }
func (w *interleaver) NextNodeId() int                       { w.tick(); return w.pop.NextNodeId() }

func structuralMutation(g *genetics.Genome, kind string, inn genetics.InnovationsObserver, ids interface{ NextNodeId() int }, opts *neat.Options) (bool, error) {
	switch kind {
	case opAddNode:
		return g.VerifMutateAddNode(inn, ids, opts)
	case opAddLink:
		return g.VerifMutateAddLink(inn, 1, opts)
	case opConnectSensors:
		return g.VerifMutateConnectSensors(inn, opts)
	}
	return false, fmt.Errorf("harness: unknown structural mutation %q", kind)
}

// oneMeaning: across the given genomes an innovation number denotes one (source, target, recurrence) and a node id one role.
func oneMeaning(genomes []*genetics.Genome) error {
	type link struct {
		in, out int
		rec     bool
	}
	links := map[int64]link{}
	owner := map[int64]int{}
	roles := map[int]int{}
	for gi, g := range genomes {
		for _, n := range g.Nodes {
			if r, ok := roles[n.Id]; ok && r != int(n.NeuronType) {
				return fmt.Errorf("node id %d denotes a node of role %d in genome %d and of role %d elsewhere", n.Id, n.NeuronType, gi, r)
			}
			roles[n.Id] = int(n.NeuronType)
		}
		for _, gn := range g.Genes {
			l := link{gn.Link.InNode.Id, gn.Link.OutNode.Id, gn.Link.IsRecurrent}
			if prev, ok := links[gn.InnovationNum]; ok && prev != l {
				return fmt.Errorf("innovation %d joins %d->%d rec=%v in genome %d but %d->%d rec=%v in genome %d",
					gn.InnovationNum, l.in, l.out, l.rec, gi, prev.in, prev.out, prev.rec, owner[gn.InnovationNum])
			}
			links[gn.InnovationNum] = l
			owner[gn.InnovationNum] = gi
		}
	}
	return nil
}

func CheckC16Interleaved(c C16Interleaved, rec *Rec) error {
	o := defaultOpts()
	opts := o.Build()
	pop := populationFor(c.Family...)
	var genomes []*genetics.Genome
	anc := IORoles{}
	for _, s := range c.Family {
		g := s.Build()
		genomes = append(genomes, g)
		for _, n := range g.Nodes {
			if int(n.NeuronType) != roleHidden {
				anc[n.Id] = int(n.NeuronType)
			}
		}
	}
	if len(genomes) < 2 {
		rec.Class("single genome (nothing to interleave)")
	}
	if err := oneMeaning(genomes); err != nil {
		return fmt.Errorf("harness: the generated family is inconsistent: %v", err)
	}
	interleavedSteps := 0
	for si, st := range c.Steps {
		a := st.Actor % len(genomes)
		w := &interleaver{pop: pop, plan: map[int][]func(){}}
		var inner error
		for _, in := range st.Interrupts {
			if len(genomes) < 2 {
				break
			}
			b := in.Actor % len(genomes)
			if b == a {
				b = (b + 1) % len(genomes) // a genome is mutated by one goroutine only
			}
			kind, other := in.Kind, genomes[b]
			w.plan[in.AtCall] = append(w.plan[in.AtCall], func() {
				other.Phenotype = nil // as for a baby: an operator receives a genome without (or with a current) phenotype
				if _, err := structuralMutation(other, kind, w, w, opts); err != nil && inner == nil { // w passes straight through while an interruption runs
					inner = fmt.Errorf("%s of genome %d (the interrupting one) returned error %v", kind, b, err)
				}
			})
		}
		seedLibrary(st.Seed)
		genomes[a].Phenotype = nil
		ok, err := structuralMutation(genomes[a], st.Kind, w, w, opts)
		if err != nil {
			return fmt.Errorf("step %d: %s of genome %d returned error %v", si, st.Kind, a, err)
		}
		if inner != nil {
			return fmt.Errorf("step %d: %v", si, inner)
		}
		if w.fired > 0 {
			interleavedSteps++
			rec.Class(fmt.Sprintf("%s interrupted by another structural mutation (result %v)", st.Kind, ok))
		}
		if err := w.rewritten(); err != nil {
			return fmt.Errorf("step %d (%s of genome %d, %d interruptions took place): %v", si, st.Kind, a, w.fired, err)
		}
		if err := oneMeaning(genomes); err != nil {
			return fmt.Errorf("step %d (%s of genome %d, %d interruptions took place): %v", si, st.Kind, a, w.fired, err)
		}
		for gi, g := range genomes {
			if err := WellFormed(g, anc); err != nil {
				return fmt.Errorf("step %d (%s of genome %d, %d interruptions took place): genome %d is not well-formed afterwards: %v", si, st.Kind, a, w.fired, gi, err)
			}
		}
	}
	if interleavedSteps >= 2 {
		rec.NonTrivial(hashOf(len(genomes), len(c.Steps), interleavedSteps, len(pop.Innovations())))
	}
	return nil
}

func TestC16Interleaved(t *testing.T) {
	runProp(t, "C16", "interleaved", 1500, 20000, GenC16Interleaved(), CheckC16Interleaved)
}

func init() { registerReplay("C16", "interleaved", CheckC16Interleaved) }

// The first clause of C03 (one meaning per innovation number and node id) holds under every executor: the same generated
// interleavings are part of C03's check as well.
func TestC03Interleaved(t *testing.T) {
	runProp(t, "C03", "interleaved", 1000, 15000, GenC16Interleaved(), CheckC16Interleaved)
}

func init() { registerReplay("C03", "interleaved", CheckC16Interleaved) }
