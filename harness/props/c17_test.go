package props

import (
	"bytes"
	"context"
	"crypto/sha256"
	"fmt"
	"math"
	"os"
	"reflect"
	"runtime"
	"strings"
	"testing"

	"github.com/yaricom/goNEAT/v4/experiment"
	"github.com/yaricom/goNEAT/v4/neat"
	"github.com/yaricom/goNEAT/v4/neat/genetics"
	"pgregory.net/rapid"
)

/* C17 - evolution is reproducible from the random seed */

func fbits(x float64) string { return fmt.Sprintf("%x", math.Float64bits(x)) }

// canonicalDump serialises everything of a population that is visible through the API, floats as bit patterns.
func canonicalDump(pop *genetics.Population) string {
	var b strings.Builder
	inn, nid := pop.VerifCounters()
	fmt.Fprintf(&b, "pop last_species=%d highest=%s epochs_highest=%d winner_gen=%d next_innov=%d next_node=%d innovations=%d mean=%s variance=%s stddev=%s final_gen=%d\n",
		pop.LastSpecies, fbits(pop.HighestFitness), pop.EpochsHighestLastChanged, pop.WinnerGen, inn, nid, len(pop.Innovations()),
		fbits(pop.MeanFitness), fbits(pop.Variance), fbits(pop.StandardDev), pop.FinalGen)
	spIndex := map[*genetics.Species]int{}
	for i, sp := range pop.Species {
		spIndex[sp] = i
		fmt.Fprintf(&b, "species %d id=%d age=%d last_improved=%d max_ever=%s expected=%d novel=%v size=%d\n", i, sp.Id, sp.Age, sp.AgeOfLastImprovement,
			fbits(sp.MaxFitnessEver), sp.ExpectedOffspring, sp.IsNovel, len(sp.Organisms))
	}
	for i, o := range pop.Organisms {
		fmt.Fprintf(&b, "org %d fitness=%s error=%s winner=%v generation=%d expected=%s species=%d pos_in_species=", i, fbits(o.Fitness), fbits(o.Error),
			o.IsWinner, o.Generation, fbits(o.ExpectedOffspring), spIndex[o.Species])
		for k, m := range o.Species.Organisms {
			if m == o {
				fmt.Fprintf(&b, "%d", k)
			}
		}
		s := Snapshot(o.Genotype)
		fmt.Fprintf(&b, " genome id=%d\n", s.Id)
		for _, t := range s.Traits {
			fmt.Fprintf(&b, " t %d", t.Id)
			for _, p := range t.Params {
				fmt.Fprintf(&b, " %s", fbits(p))
			}
			b.WriteByte('\n')
		}
		for _, n := range s.Nodes {
			fmt.Fprintf(&b, " n %d %d %d %d\n", n.Id, n.Role, n.Act, n.Trait)
		}
		for _, g := range s.Genes {
			fmt.Fprintf(&b, " g %d %d %s %v %d %s %v %d\n", g.In, g.Out, fbits(g.W), g.Rec, g.Innov, fbits(g.Mut), g.En, g.Trait)
		}
		for _, m := range s.Modules {
			fmt.Fprintf(&b, " m %d %d %d %s %v %d %v %v\n", m.Id, m.Act, m.Innov, fbits(m.Mut), m.En, m.Trait, m.Ins, m.Outs)
		}
	}
	return b.String()
}

var interferenceSink [][]byte

// interfere does unrelated work between two runs: another population under another seed, allocations of odd
// sizes, a garbage collection and map churn (all of which move addresses and map iteration seeds).
func interfere(k int64) {
	o := defaultOpts()
	o.PopSize = 9
	o.MutateAddNodeProb, o.MutateAddLinkProb = 0.3, 0.5
	_ = runScenario(Scenario{Ctor: "spawn", Start: xorStart(), Opts: o, Epochs: 3, Fit: FitnessProg{Kind: "uniform", Scale: 1, Salt: k}, Seed: k + 17}, epochHooks{}, newRec())
	for i := 0; i < 50; i++ {
		interferenceSink = append(interferenceSink, make([]byte, 1+(int(k)+i*37)%4096))
	}
	if len(interferenceSink) > 400 {
		interferenceSink = interferenceSink[200:]
	}
	// other parts of the library at work: a genome written and read in both encodings, expressed, its network and its fast
	// solver activated, a small experiment run to its end
	g := xorStart().Build()
	for _, enc := range []genetics.GenomeEncoding{genetics.PlainGenomeEncoding, genetics.YAMLGenomeEncoding} {
		var buf bytes.Buffer
		if w, err := genetics.NewGenomeWriter(&buf, enc); err == nil && w.WriteGenome(g) == nil {
			if r, err := genetics.NewGenomeReader(&buf, enc); err == nil {
				_, _ = r.Read()
			}
		}
	}
	if net, err := g.Genesis(int(k % 100)); err == nil {
		_ = net.LoadSensors([]float64{1, 0, 1})
		_, _ = net.ForwardSteps(2)
		if fs, err := net.FastNetworkSolver(); err == nil {
			_ = fs.LoadSensors([]float64{0, 1})
			_, _ = fs.RecursiveSteps()
		}
	}
	{
		eo := defaultOpts()
		eo.PopSize, eo.NumRuns, eo.NumGenerations = 6, 2, 2
		opts := eo.Build()
		ec := C20Case{Trials: 2, Generations: 2, SolvedAt: []int{-1, 1}, Fault: "none", PopSize: 6}
		exp := &experiment.Experiment{Id: 1, Name: "unrelated"}
		_ = exp.Execute(neat.NewContext(context.Background(), opts), xorStart().Build(), &protoRecorder{c: ec, cancel: func() {}, pops: map[*genetics.Population]int{}}, nil)
		_ = exp.AvgWinnerStatistics
	}
	m := map[int]*int{}
	for i := 0; i < 300; i++ {
		v := i
		m[i*7919%1000] = &v
	}
	runtime.GC()
}

func xorStart() GenomeSpec {
	return GenomeSpec{Id: 1, Traits: []TraitSpec{{Id: 1, Params: []float64{0.1, 0, 0, 0, 0, 0, 0, 0}}},
		Nodes: []NodeSpec{{Id: 1, Role: roleBias, Act: 17}, {Id: 2, Role: roleInput, Act: 17}, {Id: 3, Role: roleInput, Act: 17}, {Id: 4, Role: roleOutput, Act: 4}},
		Genes: []GeneSpec{{In: 1, Out: 4, W: 0, Innov: 1, En: true, Trait: 1}, {In: 2, Out: 4, W: 0, Innov: 2, En: true, Trait: 1}, {In: 3, Out: 4, W: 0, Innov: 3, En: true, Trait: 1}}}
}

// evolve runs the scenario and returns the dump of the final population together with growth indicators.
func evolve(sc Scenario, rec *Rec) (dump string, written string, grew bool, err error) {
	defer func() {
		if r := recover(); r != nil { // a scenario that dies is an outcome like any other: it has to die the same way twice
			dump, written, grew, err = "", "", false, fmt.Errorf("panic: %v", r)
		}
	}()
	startGenes := 0
	var final *genetics.Population
	// the population right after construction and after every turnover, one digest per line in front of the final dump: two
	// runs must agree all the way, not only at the end
	var trail strings.Builder
	note := func(when string, pop *genetics.Population) {
		fmt.Fprintf(&trail, "%s %x\n", when, sha256.Sum256([]byte(canonicalDump(pop))))
	}
	defer func() {
		if err == nil && dump != "" {
			dump = trail.String() + dump
		}
	}()
	err = runScenario(sc, epochHooks{
		built: func(pop *genetics.Population, _ *neat.Options) error { note("constructed", pop); return nil },
		before: func(e int, pop *genetics.Population) error {
			if e == 0 {
				for _, o := range pop.Organisms {
					startGenes += len(o.Genotype.Genes)
				}
			}
			final = pop
			return nil
		},
		after: func(e int, pop *genetics.Population) error {
			final = pop
			if len(pop.Organisms) <= 200 {
				note(fmt.Sprintf("after epoch %d", e), pop)
			}
			return nil
		},
	}, rec)
	if err != nil || final == nil {
		return "", "", false, err
	}
	genes := 0
	for _, o := range final.Organisms {
		genes += len(o.Genotype.Genes)
	}
	var buf bytes.Buffer
	if werr := final.Write(&buf); werr != nil {
		return "", "", false, werr
	}
	return canonicalDump(final), buf.String(), genes > startGenes, nil
}

func firstDifference(a, b string) string {
	la, lb := strings.Split(a, "\n"), strings.Split(b, "\n")
	for i := 0; i < len(la) && i < len(lb); i++ {
		if la[i] != lb[i] {
			return fmt.Sprintf("line %d: %q vs %q", i, la[i], lb[i])
		}
	}
	return fmt.Sprintf("lengths %d vs %d lines", len(la), len(lb))
}

// C17Case: the scenario under test and the unrelated work (other scenarios, generated: other option sets, activator
// wheels, seeds) that the same process performs between the two runs. The case carries its own "earlier work", so a
// failure replays in a fresh process.
type C17Case struct {
	Sc     Scenario   `json:"scenario"`
	Others []Scenario `json:"unrelated_work"`
	// Derived: in the second run the options object is a by-value copy of an options object that was used before
	// (for another population), with every setting overwritten: equal option values are equal inputs
	Derived bool `json:"second_run_options_copied_from_used_object"`
	// InPlace: the second run re-uses the very options object of earlier unrelated work, every setting overwritten in place
	InPlace bool `json:"second_run_options_object_reused_in_place"`
	// UsedExecutor: the second run is turned over by an executor object that served an unrelated population (other options
	// object, other size) before: an executor is a stateless tool between turnovers
	UsedExecutor bool `json:"second_run_executor_object_used_before,omitempty"`
	// SameStart: both runs (and the unrelated work of the same constructor kind) spawn from one and the same start genome
	// object: spawning reads the start genome, it does not own it
	SameStart bool `json:"both_runs_from_one_start_genome_object,omitempty"`
	// FreshExecutors: the second run takes a new executor object for every turnover (the first run keeps one for the whole
	// history): an executor is a stateless tool between turnovers
	FreshExecutors bool `json:"second_run_new_executor_per_turnover,omitempty"`
	// Loaded (with Derived): the used options object of the second run was loaded from an options file of the repository
	// (1: YAML, 2: plain format) before every exported setting was overwritten - how the shipped experiments configure a run
	Loaded int `json:"second_run_options_loaded_from_file,omitempty"`
}

// deriveOptions: a by-value copy of a used options object with every exported field set from want.
func deriveOptions(used, want *neat.Options) *neat.Options {
	cp := *used
	dv, sv := reflect.ValueOf(&cp).Elem(), reflect.ValueOf(want).Elem()
	for i := 0; i < dv.NumField(); i++ {
		if dv.Field(i).CanSet() {
			dv.Field(i).Set(sv.Field(i))
		}
	}
	return &cp
}

func genC17() *rapid.Generator[C17Case] {
	main := genScenario(ScenarioCfg{MaxEpochs: pick(20, 30), Parallel: 0, Structural: true, Warm: true, Retry: true, BigPops: true})
	other := genScenario(ScenarioCfg{MaxEpochs: 2, Parallel: 1, Structural: true, MaxPop: 8, CancelTail: true})
	modular := genGenomeSpec(GenomeCfg{Modules: true, MinGenes: 1, MaxHidden: 2, MaxGenes: 8, ModestWeight: true})
	return rapid.Custom(func(t *rapid.T) C17Case {
		c := C17Case{Sc: main.Draw(t, "scenario")}
		if rapid.IntRange(0, 2).Draw(t, "stealing variant") == 0 {
			// many species that keep improving, old enough to be robbed: the stolen babies are handed out beyond
			// the three best species (decisions drawn from the random source)
			o := &c.Sc.Opts
			o.PopSize = rapid.IntRange(30, 60).Draw(t, "pop size (stealing)")
			o.BabiesStolen = rapid.IntRange(4, 20).Draw(t, "babies stolen (stealing)")
			o.DropOffAge = rapid.IntRange(15, 30).Draw(t, "dropoff age (stealing)")
			o.CompatThreshold = rapid.Float64Range(0.3, 2).Draw(t, "threshold (stealing)")
			c.Sc.Epochs = rapid.IntRange(8, pick(20, 30)).Draw(t, "epochs (stealing)")
			c.Sc.Fit.Kind = rapid.SampledFrom([]string{"uniform", "heavy", "distinct", "genome"}).Draw(t, "fitness (stealing)")
		}
		switch rapid.IntRange(0, 59).Draw(t, "special start") { // (rapid favours the ends of a range: interior values are rare)
		case 37: // a large population (thresholds in population code are typically powers of two)
			c.Sc.Ctor = "spawn"
			c.Sc.Opts.PopSize = rapid.SampledFrom([]int{1000, 2048, 4096}).Draw(t, "large population")
			c.Sc.Opts.BabiesStolen = 0
			c.Sc.Epochs = rapid.IntRange(1, 2).Draw(t, "epochs (large)")
		case 38, 39: // a saturated start genome and a very large number of tries for a new link: every add-link search runs long
			c.Sc.Ctor = "spawn"
			c.Sc.Start = GenomeSpec{Id: 1, Traits: []TraitSpec{{Id: 1, Params: make([]float64, 8)}},
				Nodes: []NodeSpec{{Id: 1, Role: roleInput, Act: 17}, {Id: 2, Role: roleInput, Act: 17}, {Id: 3, Role: roleOutput, Act: 4}},
				Genes: []GeneSpec{{In: 1, Out: 3, W: 0.5, Innov: 1, Mut: 0.5, En: true, Trait: 1}, {In: 2, Out: 3, W: -0.5, Innov: 2, Mut: -0.5, En: true, Trait: 1}}}
			o := &c.Sc.Opts
			o.PopSize, o.BabiesStolen, o.NewLinkTries = 6, 0, rapid.SampledFrom([]int{200000, 400000}).Draw(t, "new link tries")
			o.MutateAddNodeProb, o.MutateAddLinkProb, o.MutateOnlyProb, o.MutateConnectSensors, o.RecurOnlyProb = 0, 0.9, 0.9, 0, 0
			c.Sc.Epochs = 2
			c.Sc.Switch = nil
		case 20, 21, 22, 23, 24, 25: // a modular start genome (two or more modules reach the children of crossovers)
			c.Sc.Ctor = "spawn"
			c.Sc.Start = modular.Draw(t, "modular start")
			c.Sc.Opts.PopSize = rapid.IntRange(4, 20).Draw(t, "pop size (modular)")
			c.Sc.Epochs = rapid.IntRange(1, 4).Draw(t, "epochs (modular)")
		}
		switch rapid.IntRange(0, 4).Draw(t, "derived options") {
		case 0:
			c.Derived = true
		case 1:
			c.Derived, c.InPlace = true, true
		}
		n := rapid.IntRange(0, 3).Draw(t, "unrelated scenarios")
		for i := 0; i < n; i++ {
			c.Others = append(c.Others, other.Draw(t, "unrelated"))
		}
		if c.Derived {
			c.Loaded = rapid.IntRange(0, 2).Draw(t, "options loaded from a file")
		}
		c.FreshExecutors = rapid.IntRange(0, 3).Draw(t, "fresh executors") == 0
		c.UsedExecutor = !c.FreshExecutors && rapid.IntRange(0, 3).Draw(t, "used executor") == 0
		c.SameStart = rapid.IntRange(0, 3).Draw(t, "same start object") == 0
		return c
	})
}

func CheckC17(c C17Case, rec *Rec) error {
	sc := c.Sc
	if c.SameStart && sc.Ctor == "spawn" {
		sharedStartGenome = sc.Start.Build()
		defer func() { sharedStartGenome = nil }()
		rec.Class("both runs spawn from one start genome object")
	}
	d1, w1, grew, err1 := evolve(sc, rec)
	if err1 == nil && d1 == "" {
		rec.Class("skipped: constructor outside the domain (gene-less random genome / failing turnover before the checkpoint)")
		return nil
	}
	interfere(sc.Seed)
	for _, o := range c.Others {
		keep := sharedStartGenome
		sharedStartGenome = nil
		_, _, _, _ = evolve(o, newRec())
		sharedStartGenome = keep
		rec.Class("generated unrelated scenario between the runs")
	}
	if c.Derived {
		used := defaultOpts()
		if len(c.Others) > 0 {
			used = c.Others[0].Opts
		}
		// the used object is exercised once, before the second run starts (nothing may draw from the random source
		// while the scenario is running)
		u := used.Build()
		if c.Loaded > 0 {
			level := neat.LogLevel // loading options sets the package's log level: the case's level is put back
			file := map[int]string{1: "/repo/data/xor_test.neat.yml", 2: "/repo/data/xor_test.neat"}[c.Loaded]
			if lo, lerr := neat.ReadNeatOptionsFromFile(file); lerr == nil {
				u = lo
				rec.Class("second run with an options object that was loaded from a file")
			}
			neat.LogLevel = level
		}
		if pop, err := genetics.NewPopulation(xorStart().Build(), u); err == nil {
			_ = newExecutor(u).NextEpoch(u.NeatContext(), 0, pop)
		}
		first := true
		buildOptions = func(o OptSpec) *neat.Options {
			if c.InPlace && first {
				// the same object (same address) with every exported field assigned
				first = false
				want := o.Build()
				dv, sv := reflect.ValueOf(u).Elem(), reflect.ValueOf(want).Elem()
				for i := 0; i < dv.NumField(); i++ {
					if dv.Field(i).CanSet() {
						dv.Field(i).Set(sv.Field(i))
					}
				}
				return u
			}
			return deriveOptions(u, o.Build())
		}
		if c.InPlace {
			rec.Class("second run with the options object of earlier work, settings overwritten in place")
		}
		rec.Class("second run with options copied from a used object")
	}
	if c.UsedExecutor && !sc.Opts.Parallel {
		// prepared before the second run starts: nothing may draw from the random source while the scenario is running
		ex := &genetics.SequentialPopulationEpochExecutor{}
		uo := defaultOpts()
		uo.PopSize, uo.CompatThreshold, uo.SurvivalThresh, uo.DropOffAge = 7, 0.5, 0.6, 3
		u := uo.Build()
		uo.MutateAddNodeProb, uo.MutateAddLinkProb, uo.MutateOnlyProb = 0.9, 0.5, 0.9
		u = uo.Build()
		if pop, err := genetics.NewPopulation(xorStart().Build(), u); err == nil {
			for e := 0; e < 2; e++ {
				for i, o := range pop.Organisms {
					o.Fitness = float64(1 + (i*5+e)%7)
				}
				_ = ex.NextEpoch(u.NeatContext(), e, pop)
			}
			// ... and whose last turnovers (generation numbers 1 and 0, as a new trial would count from 0 again) were cancelled half way,
			// after some structural mutations had taken place
			for _, e := range []int{1, 0} {
				for i, o := range pop.Organisms {
					o.Fitness = float64(1 + (i*3+e)%5)
				}
				cctx := &countdownCtx{Context: u.NeatContext(), closed: closedChan}
				cctx.left.Store(int64(4 + sc.Seed%5))
				_ = ex.NextEpoch(cctx, e, pop)
			}
		}
		preparedExecutor = ex
		rec.Class("second run turned over by an executor object that served another population")
	}
	if c.FreshExecutors && !sc.Opts.Parallel {
		executorPerTurnover = true
		rec.Class("second run with a new executor object for every turnover")
	}
	d2, w2, _, err2 := evolve(sc, newRec())
	executorPerTurnover = false
	preparedExecutor = nil
	buildOptions = func(o OptSpec) *neat.Options { return o.Build() }
	if len(sc.Start.Modules) > 0 {
		rec.Class("modular start genome")
	}
	if sc.Opts.PopSize >= 1000 {
		rec.Class("large population")
	}
	if sc.Opts.NewLinkTries >= 100000 {
		rec.Class("add-link searches that run long")
	}
	if err1 != nil || err2 != nil {
		// a scenario that fails is judged by the properties about construction and turnover; here only "the same
		// inputs give the same outcome" matters
		if err1 != nil && err2 != nil {
			// (the texts are not compared: a message may print addresses)
			rec.Class("scenario fails in both runs (outside this property)")
			return nil
		}
		return fmt.Errorf("two runs of the same scenario with the same seed end differently: first run: %v; second run: %v", err1, err2)
	}
	if sc.Opts.BabiesStolen > 0 && sc.Epochs >= 8 {
		rec.Class("babies stolen configured, 8 or more epochs")
	}
	rec.Class("constructor:" + sc.Ctor)
	rec.Class("fitness:" + sc.Fit.Kind)
	if grew {
		rec.Class("genomes grew")
	}
	if sc.Epochs >= 5 && grew {
		rec.NonTrivial(hashOf(sc.Ctor, sc.Epochs, sc.Opts.PopSize, sc.Fit.Kind, sc.Seed, len(d1)))
	}
	if d1 != d2 {
		return fmt.Errorf("two runs of the same scenario with the same seed differ: %s", firstDifference(d1, d2))
	}
	if w1 != w2 {
		return fmt.Errorf("the written populations of two identical runs differ: %s", firstDifference(w1, w2))
	}
	if path := os.Getenv("VERIF_C17_DIGESTS"); path != "" {
		// cross-process comparison (thorough tier): the driver runs the same shard in differently configured
		// processes and compares these lines
		f, ferr := os.OpenFile(path, os.O_APPEND|os.O_CREATE|os.O_WRONLY, 0o644)
		if ferr == nil {
			fmt.Fprintf(f, "%x %x\n", sha256.Sum256([]byte(jsonStr(sc))), sha256.Sum256([]byte(d1+w1)))
			f.Close()
		}
	}
	return nil
}

func TestC17(t *testing.T) {
	runProp(t, "C17", "rerun", 300, 4000, genC17(), CheckC17)
}

func init() { registerReplay("C17", "rerun", CheckC17) }
