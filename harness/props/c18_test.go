package props

import (
	"fmt"
	"math"
	"strings"
	"testing"

	neatmath "github.com/yaricom/goNEAT/v4/neat/math"
	"github.com/yaricom/goNEAT/v4/neat/network"
	"pgregory.net/rapid"
)

/* C18 - activation functions match their definitions, ranges and names */

// the harness's own table of the 20 scalar activations: closed form (written from the definitions in the doc
// comments), documented range and monotonicity
type actRef struct {
	name     string
	f        func(x float64) float64
	lo, hi   float64
	monotone bool
	exact    bool // monotone without rounding slack
	// polynomial: the definition is a short polynomial / comparison expression whose factored form is evaluated without
	// cancellation (every step is exact or a single monotone rounding): the value is compared with a relative tolerance
	// only, and monotonicity is exact. An algebraically equal but cancelling evaluation order is not the same function
	// next to a zero of the polynomial.
	polynomial bool
}

func sq(x float64) float64 { return x * x }

var actRefs = map[int]actRef{
	1: {"SigmoidPlainActivation", func(x float64) float64 { return 1 / (1 + math.Exp(-x)) }, 0, 1, true, false, false},
	2: {"SigmoidReducedActivation", func(x float64) float64 { return 1 / (1 + math.Exp(-0.5*x)) }, 0, 1, true, false, false},
	3: {"SigmoidBipolarActivation", func(x float64) float64 { return 2/(1+math.Exp(-4.924273*x)) - 1 }, -1, 1, true, false, false},
	4: {"SigmoidSteepenedActivation", func(x float64) float64 { return 1 / (1 + math.Exp(-4.924273*x)) }, 0, 1, true, false, false},
	5: {"SigmoidApproximationActivation", func(x float64) float64 {
		switch {
		case x < -4:
			return 0
		case x < 0:
			return sq(x+4) / 32
		case x < 4:
			return 1 - sq(x-4)/32
		}
		return 1
	}, 0, 1, true, true, true},
	6: {"SigmoidSteepenedApproximationActivation", func(x float64) float64 {
		switch {
		case x < -1:
			return 0
		case x < 0:
			return sq(x+1) / 2
		case x < 1:
			return 1 - sq(x-1)/2
		}
		return 1
	}, 0, 1, true, true, true},
	7:  {"SigmoidInverseAbsoluteActivation", func(x float64) float64 { return 0.5 + 0.5*(x/(1+math.Abs(x))) }, 0, 1, true, false, false},
	8:  {"SigmoidLeftShiftedActivation", func(x float64) float64 { return 1 / (1 + math.Exp(-x-2.4621365)) }, 0, 1, true, false, false},
	9:  {"SigmoidLeftShiftedSteepenedActivation", func(x float64) float64 { return 1 / (1 + math.Exp(-(4.924273*x + 2.4621365))) }, 0, 1, true, false, false},
	10: {"SigmoidRightShiftedSteepenedActivation", func(x float64) float64 { return 1 / (1 + math.Exp(-(4.924273*x - 2.4621365))) }, 0, 1, true, false, false},
	11: {"TanhActivation", func(x float64) float64 { return math.Tanh(0.9 * x) }, -1, 1, true, false, false},
	12: {"GaussianBipolarActivation", func(x float64) float64 { return 2*math.Exp(-sq(2.5*x)) - 1 }, -1, 1, false, false, false},
	13: {"GaussianActivation", func(x float64) float64 { return math.Exp(-sq(x)) }, 0, 1, false, false, false},
	14: {"LinearActivation", func(x float64) float64 { return x }, math.Inf(-1), math.Inf(1), true, true, false},
	15: {"LinearAbsActivation", func(x float64) float64 { return math.Abs(x) }, 0, math.Inf(1), false, false, false},
	16: {"LinearClippedActivation", func(x float64) float64 { return math.Max(-1, math.Min(1, x)) }, -1, 1, true, true, false},
	17: {"NullActivation", func(x float64) float64 { return 0 }, 0, 0, false, false, false},
	18: {"SignActivation", func(x float64) float64 {
		switch {
		case x > 0:
			return 1
		case x < 0:
			return -1
		}
		return 0
	}, -1, 1, false, false, false},
	19: {"SineActivation", func(x float64) float64 { return math.Sin(2 * x) }, -1, 1, false, false, false},
	20: {"StepActivation", func(x float64) float64 {
		if x < 0 {
			return 0
		}
		return 1
	}, 0, 1, true, true, false},
}

var moduleNames = map[int]string{21: "MultiplyModuleActivation", 22: "MaxModuleActivation", 23: "MinModuleActivation"}

var breakpoints = []float64{0, math.Copysign(0, -1), 1, -1, 4, -4, 0.5, -0.5, 2.4621365, -2.4621365, 2.4621365 / 4.924273, -2.4621365 / 4.924273,
	4.924273, 1e300, -1e300, 1e-300, -1e-300, 5e-324, -5e-324, 709, -709, 710, -710, 745, -745, 36, -36, 19, -19, 0.4, 26.6, -26.6, 1e154, -1e154, 1.3e154, 4e153}

// genActInput draws a float64 with |x| <= 1e300 biased to breakpoints, their float neighbours, zeros and extremes.
func genActInput() *rapid.Generator[float64] {
	return rapid.Custom(func(t *rapid.T) float64 {
		switch rapid.IntRange(0, 5).Draw(t, "kind") {
		case 0:
			return rapid.Float64Range(-10, 10).Draw(t, "x")
		case 1:
			return rapid.Float64Range(-1.5, 1.5).Draw(t, "x")
		case 2: // log-uniform magnitude, both signs
			e := rapid.Float64Range(-320, 300).Draw(t, "exp")
			x := math.Pow(10, e) * rapid.Float64Range(1, 10).Draw(t, "mant")
			if x > 1e300 {
				x = 1e300
			}
			if rapid.Bool().Draw(t, "neg") {
				x = -x
			}
			return x
		case 3:
			return rapid.SampledFrom(breakpoints).Draw(t, "bp")
		case 4: // float neighbours of a breakpoint
			x := rapid.SampledFrom(breakpoints).Draw(t, "bp")
			n := rapid.IntRange(1, 3).Draw(t, "ulps")
			dir := math.Inf(1)
			if rapid.Bool().Draw(t, "down") {
				dir = math.Inf(-1)
			}
			for i := 0; i < n; i++ {
				x = math.Nextafter(x, dir)
			}
			if math.Abs(x) > 1e300 {
				x = math.Copysign(1e300, x)
			}
			return x
		default:
			return rapid.Float64Range(-1e300, 1e300).Draw(t, "x")
		}
	})
}

type C18Scalar struct {
	Type int     `json:"type"`
	X    float64 `json:"x"`
	Y    float64 `json:"y"`
}

func GenC18Scalar() *rapid.Generator[C18Scalar] {
	return rapid.Custom(func(t *rapid.T) C18Scalar {
		c := C18Scalar{Type: rapid.IntRange(1, 20).Draw(t, "type"), X: genActInput().Draw(t, "x")}
		if rapid.Bool().Draw(t, "adjacent") {
			c.Y = math.Nextafter(c.X, math.Inf(1))
			if c.Y > 1e300 {
				c.Y = c.X
			}
		} else {
			c.Y = genActInput().Draw(t, "y")
		}
		return c
	})
}

func CheckC18Scalar(c C18Scalar, rec *Rec) error {
	ref := actRefs[c.Type]
	typ := neatmath.NodeActivationType(c.Type)
	vals := [2]float64{}
	for i, x := range []float64{c.X, c.Y} {
		got, err := neatmath.NodeActivators.ActivateByType(x, nil, typ)
		if err != nil {
			return fmt.Errorf("%s(%v) returned error %v", ref.name, x, err)
		}
		vals[i] = got
		// the definition has one argument: auxiliary parameters (a node's derived trait parameters, which the network hands
		// over with every activation) do not enter it, neither directly nor through the node-level entry point
		aux := []float64{x, -x, 1e9, 0.5}
		if withAux, err := neatmath.NodeActivators.ActivateByType(x, aux, typ); err != nil || !sameFloat(withAux, got) {
			return fmt.Errorf("%s(%v) = %v, but %v (error %v) when auxiliary parameters %v are handed over", ref.name, x, got, withAux, err, aux)
		}
		node := network.NewNNode(1, network.HiddenNeuron)
		node.ActivationType, node.ActivationSum, node.Params = typ, x, aux[:i+1]
		if err := network.ActivateNode(node, neatmath.NodeActivators); err != nil || !sameFloat(node.Activation, got) {
			return fmt.Errorf("%s(%v) = %v, but activating a node with that activation sum gives %v (error %v)", ref.name, x, got, node.Activation, err)
		}
		want := ref.f(x)
		if math.IsNaN(got) || math.IsInf(got, 0) {
			return fmt.Errorf("%s(%v) = %v is not finite", ref.name, x, got)
		}
		if got < ref.lo || got > ref.hi {
			return fmt.Errorf("%s(%v) = %v is outside the documented range [%v, %v]", ref.name, x, got, ref.lo, ref.hi)
		}
		tol := 1e-12 * (1 + math.Abs(want))
		if ref.polynomial {
			tol = 1e-12*math.Abs(want) + 5e-324
		}
		if math.Abs(got-want) > tol {
			return fmt.Errorf("%s(%v) = %v but the definition gives %v", ref.name, x, got, want)
		}
	}
	rec.Class("type:" + ref.name)
	if c.X == 0 || c.Y == 0 {
		rec.Class("zero input")
		if math.Signbit(c.X) && c.X == 0 || math.Signbit(c.Y) && c.Y == 0 {
			rec.Class("negative zero input")
		}
	}
	if math.Abs(c.X) >= 1e100 || math.Abs(c.Y) >= 1e100 {
		rec.Class("huge input")
	}
	if ref.monotone {
		lo, hi := c.X, c.Y
		flo, fhi := vals[0], vals[1]
		if lo > hi {
			lo, hi, flo, fhi = hi, lo, fhi, flo
		}
		slack := math.Ldexp(1, -50)
		if ref.exact {
			slack = 0
		}
		if flo > fhi+slack {
			return fmt.Errorf("%s is not monotone: f(%v)=%v > f(%v)=%v", ref.name, lo, flo, hi, fhi)
		}
		if lo != hi {
			rec.Class("monotonicity pair")
		}
	}
	// a module code must be refused by the scalar entry point and vice versa
	if _, err := neatmath.NodeActivators.ActivateModuleByType([]float64{c.X}, nil, typ); err == nil {
		return fmt.Errorf("module activation with the scalar type %s returned no error", ref.name)
	}
	rec.NonTrivial(hashOf(c.Type, math.Float64bits(c.X)>>40, math.Float64bits(c.Y)>>40))
	return nil
}

type C18Module struct {
	Type int       `json:"type"`
	Vec  []float64 `json:"vec"`
}

func GenC18Module() *rapid.Generator[C18Module] {
	return rapid.Custom(func(t *rapid.T) C18Module {
		c := C18Module{Type: rapid.IntRange(21, 23).Draw(t, "type")}
		n := rapid.OneOf(rapid.IntRange(1, 8), rapid.IntRange(1, 8), rapid.IntRange(9, 40)).Draw(t, "n")
		kind := rapid.IntRange(0, 4).Draw(t, "kind")
		for i := 0; i < n; i++ {
			var x float64
			switch kind {
			case 0:
				x = rapid.Float64Range(-10, 10).Draw(t, "x")
			case 1: // all far below -9.2e18 (and far above)
				x = -rapid.Float64Range(1e19, 1e300).Draw(t, "x")
			case 2:
				x = rapid.Float64Range(1e19, 1e300).Draw(t, "x")
			case 4: // up to the ends of the float64 range
				x = rapid.SampledFrom([]float64{math.MaxFloat64, -math.MaxFloat64, 1.1e308, -1.1e308, 1e301, -1e301, 5e-324, -5e-324}).Draw(t, "x")
			default:
				x = genActInput().Draw(t, "x")
			}
			c.Vec = append(c.Vec, x)
		}
		return c
	})
}

func sameFloat(a, b float64) bool {
	return a == b || (math.IsNaN(a) && math.IsNaN(b))
}

func CheckC18Module(c C18Module, rec *Rec) error {
	typ := neatmath.NodeActivationType(c.Type)
	out, err := neatmath.NodeActivators.ActivateModuleByType(c.Vec, nil, typ)
	if err != nil {
		return fmt.Errorf("%s(%v) returned error %v", moduleNames[c.Type], c.Vec, err)
	}
	if len(out) != 1 {
		return fmt.Errorf("%s returned %d values", moduleNames[c.Type], len(out))
	}
	want := c.Vec[0]
	switch c.Type {
	case 21:
		want = 1.0
		for _, v := range c.Vec {
			want *= v
		}
	case 22:
		for _, v := range c.Vec {
			want = math.Max(want, v)
		}
	case 23:
		for _, v := range c.Vec {
			want = math.Min(want, v)
		}
	}
	if !sameFloat(out[0], want) {
		return fmt.Errorf("%s(%v) = %v, expected %v", moduleNames[c.Type], c.Vec, out[0], want)
	}
	// the result is a value of its own: it stays what it was while other modules are activated
	for _, other := range []int{21, 22, 23} {
		_, _ = neatmath.NodeActivators.ActivateModuleByType([]float64{want + 1, 0.5, -want - 2}, nil, neatmath.NodeActivationType(other))
	}
	if !sameFloat(out[0], want) {
		return fmt.Errorf("the result of %s(%v) changed from %v to %v while other modules were activated", moduleNames[c.Type], c.Vec, want, out[0])
	}
	if _, err := neatmath.NodeActivators.ActivateByType(c.Vec[0], nil, typ); err == nil {
		return fmt.Errorf("scalar activation with the module type %s returned no error", moduleNames[c.Type])
	}
	if err := nestedModuleActivation(c); err != nil {
		return err
	}
	rec.Class("type:" + moduleNames[c.Type])
	if len(c.Vec) > 16 {
		rec.Class("more than 16 inputs")
	}
	allBelow, allAbove := true, true
	for _, v := range c.Vec {
		allBelow = allBelow && v < -9.3e18
		allAbove = allAbove && v > 1.8e308/2
	}
	if allBelow {
		rec.Class("all entries below -9.3e18")
	}
	rec.NonTrivial(hashOf(c.Type, len(c.Vec), math.Float64bits(c.Vec[0])>>36))
	return nil
}

// nestedModuleActivation: network.ActivateModule of one module node while the activation of another module node is in
// progress (the harness owns the schedule: the first module's activator, registered on a private factory, lets the second
// activation run before it computes - what two evaluation goroutines do to each other at that point). Each module must
// still receive the product of its own inputs.
func nestedModuleActivation(c C18Module) error {
	f := neatmath.NewNodeActivatorsFactory()
	var hook func()
	f.RegisterModule(neatmath.NodeActivationType(200), func(in []float64, _ []float64) []float64 {
		if h := hook; h != nil {
			hook = nil
			h()
		}
		p := 1.0
		for _, v := range in {
			p *= v
		}
		return []float64{p}
	}, "GatedProduct")
	build := func(id int, vec []float64) (*network.NNode, *network.NNode) {
		m := network.NewNNode(id, network.HiddenNeuron)
		m.ActivationType = neatmath.NodeActivationType(200)
		for i, v := range vec {
			sn := network.NewSensorNode(1000*id+i, false)
			sn.SensorLoad(v)
			m.ConnectFrom(sn, 1)
		}
		out := network.NewNNode(id+1, network.OutputNeuron)
		out.ConnectFrom(m, 1)
		return m, out
	}
	other := make([]float64, 0, len(c.Vec)+1)
	for i := len(c.Vec) - 1; i >= 0; i-- {
		other = append(other, c.Vec[i]/2+1)
	}
	other = append(other, 3)
	m1, out1 := build(10, c.Vec)
	m2, out2 := build(20, other)
	var innerErr error
	hook = func() { innerErr = network.ActivateModule(m2, f) }
	if err := network.ActivateModule(m1, f); err != nil || innerErr != nil {
		return fmt.Errorf("ActivateModule returned (%v, nested %v)", err, innerErr)
	}
	want1, want2 := 1.0, 1.0
	for _, v := range c.Vec {
		want1 *= v
	}
	for _, v := range other {
		want2 *= v
	}
	if got := out1.GetActiveOut(); !sameFloat(got, want1) {
		return fmt.Errorf("ActivateModule over the inputs %v set the output to %v instead of the product %v (another module was activated while this one was in progress)", c.Vec, got, want1)
	}
	if got := out2.GetActiveOut(); !sameFloat(got, want2) {
		return fmt.Errorf("the nested ActivateModule over the inputs %v set the output to %v instead of the product %v", other, got, want2)
	}
	return nil
}

type C18Name struct {
	Code int    `json:"code"`
	Name string `json:"name"`
}

func GenC18Name() *rapid.Generator[C18Name] {
	return rapid.Custom(func(t *rapid.T) C18Name {
		c := C18Name{Code: rapid.IntRange(0, 255).Draw(t, "code")}
		if rapid.Bool().Draw(t, "registered code") {
			c.Code = rapid.IntRange(1, 23).Draw(t, "code23")
		}
		all := []string{}
		for i := 1; i <= 20; i++ {
			all = append(all, actRefs[i].name)
		}
		for i := 21; i <= 23; i++ {
			all = append(all, moduleNames[i])
		}
		switch rapid.IntRange(0, 4).Draw(t, "kind") {
		case 0:
			c.Name = rapid.SampledFrom(all).Draw(t, "name")
		case 1:
			c.Name = strings.ToLower(rapid.SampledFrom(all).Draw(t, "name"))
		case 2:
			c.Name = rapid.SampledFrom(all).Draw(t, "name") + rapid.SampledFrom([]string{" ", "x", "\n", "Activation"}).Draw(t, "suffix")
		case 3:
			c.Name = rapid.String().Draw(t, "name")
		default:
			c.Name = strings.TrimSuffix(rapid.SampledFrom(all).Draw(t, "name"), "Activation")
		}
		return c
	})
}

func CheckC18Name(c C18Name, rec *Rec) error {
	expected := map[int]string{}
	for k, v := range actRefs {
		expected[k] = v.name
	}
	for k, v := range moduleNames {
		expected[k] = v
	}
	byName := map[string]int{}
	for k, v := range expected {
		byName[v] = k
	}
	typ := neatmath.NodeActivationType(c.Code)
	name, err := neatmath.NodeActivators.ActivationNameFromType(typ)
	if want, ok := expected[c.Code]; ok {
		if err != nil || name != want {
			return fmt.Errorf("name of type code %d is (%q, %v), expected %q", c.Code, name, err, want)
		}
		back, err := neatmath.NodeActivators.ActivationTypeFromName(name)
		if err != nil || int(back) != c.Code {
			return fmt.Errorf("type of name %q is (%d, %v), expected %d", name, back, err, c.Code)
		}
		rec.Class("registered code")
	} else {
		if err == nil {
			return fmt.Errorf("unregistered type code %d has the name %q instead of an error", c.Code, name)
		}
		if _, err := neatmath.NodeActivators.ActivateByType(0.5, nil, typ); err == nil {
			return fmt.Errorf("activation with the unregistered type code %d returned no error", c.Code)
		}
		if _, err := neatmath.NodeActivators.ActivateModuleByType([]float64{0.5}, nil, typ); err == nil {
			return fmt.Errorf("module activation with the unregistered type code %d returned no error", c.Code)
		}
		rec.Class("unregistered code")
	}
	got, err := neatmath.NodeActivators.ActivationTypeFromName(c.Name)
	if want, ok := byName[c.Name]; ok {
		if err != nil || int(got) != want {
			return fmt.Errorf("type of name %q is (%d, %v), expected %d", c.Name, got, err, want)
		}
		rec.Class("registered name")
	} else {
		if err == nil {
			return fmt.Errorf("unknown name %q maps to type %d instead of an error", c.Name, got)
		}
		rec.Class("unknown name")
	}
	rec.NonTrivial(hashOf(c.Code, c.Name))
	return nil
}

/* ---- call sequences on the shared activator table: every request is answered on its own merits ---- */

type C18Call struct {
	Module bool    `json:"module"` // ActivateModuleByType instead of ActivateByType
	Code   int     `json:"code"`
	X      float64 `json:"x"`
	// Other: instead of a request to the shared table, a custom activator "Custom<code>" is registered under Code on a
	// second, private factory; the shared table must keep refusing that code and that name
	Other bool `json:"register_on_another_factory,omitempty"`
	// Lookup: a name / code lookup on the shared table instead of an activation
	Lookup bool `json:"lookup,omitempty"`
}

type C18Calls struct {
	Calls []C18Call `json:"calls"`
}

func GenC18Calls() *rapid.Generator[C18Calls] {
	return rapid.Custom(func(t *rapid.T) C18Calls {
		var c C18Calls
		n := rapid.IntRange(2, 8).Draw(t, "calls")
		last := 0
		for i := 0; i < n; i++ {
			call := C18Call{Module: rapid.IntRange(0, 3).Draw(t, "module call") == 0, X: rapid.Float64Range(-4, 4).Draw(t, "x")}
			switch rapid.IntRange(0, 7).Draw(t, "call kind") {
			case 0:
				call.Other = true
			case 1:
				call.Lookup = true
			}
			switch rapid.IntRange(0, 3).Draw(t, "code kind") {
			case 0:
				call.Code = rapid.IntRange(1, 23).Draw(t, "registered")
			case 1:
				call.Code = rapid.SampledFrom([]int{0, 24, 25, 100, 255}).Draw(t, "unregistered")
			case 2:
				call.Code = last // the same request again
			default:
				call.Code = rapid.IntRange(0, 30).Draw(t, "any")
			}
			last = call.Code
			c.Calls = append(c.Calls, call)
		}
		return c
	})
}

func CheckC18Calls(c C18Calls, rec *Rec) error {
	refused := 0
	other := neatmath.NewNodeActivatorsFactory()
	for i, call := range c.Calls {
		typ := neatmath.NodeActivationType(call.Code)
		ref, scalar := actRefs[call.Code]
		_, module := moduleNames[call.Code]
		where := fmt.Sprintf("call %d of %v", i, c.Calls)
		if call.Other {
			if !scalar && !module { // a code the shared table does not know: registered on the private factory only
				name := fmt.Sprintf("Custom%d", call.Code)
				// the private factory is asked first (any lookup), then extended, then asked for the new entry: a
				// registration takes effect whatever was asked before
				_, _ = other.ActivationTypeFromName("SigmoidPlainActivation")
				_, _ = other.ActivationNameFromType(typ)
				other.Register(typ, func(x float64, _ []float64) float64 { return x + 1 }, name)
				if t2, err := other.ActivationTypeFromName(name); err != nil || t2 != typ {
					return fmt.Errorf("%s: after registering %q under code %d on a private factory, its name maps to (%d, %v)", where, name, call.Code, t2, err)
				}
				if n2, err := other.ActivationNameFromType(typ); err != nil || n2 != name {
					return fmt.Errorf("%s: after registering %q under code %d on a private factory, the code maps to (%q, %v)", where, name, call.Code, n2, err)
				}
				if v, err := other.ActivateByType(call.X, nil, typ); err != nil || v != call.X+1 {
					return fmt.Errorf("%s: the activator registered under code %d on a private factory returns (%v, %v) for %v", where, call.Code, v, err, call.X)
				}
				rec.Class("custom activator registered on another factory")
			}
			continue
		}
		if call.Lookup {
			name, err := neatmath.NodeActivators.ActivationNameFromType(typ)
			if scalar || module {
				if err != nil || (scalar && name != ref.name) || (module && name != moduleNames[call.Code]) {
					return fmt.Errorf("%s: name of the registered type code %d is (%q, %v)", where, call.Code, name, err)
				}
			} else {
				if err == nil {
					return fmt.Errorf("%s: the shared table names the unregistered type code %d %q instead of returning an error", where, call.Code, name)
				}
				if t2, err := neatmath.NodeActivators.ActivationTypeFromName(fmt.Sprintf("Custom%d", call.Code)); err == nil {
					return fmt.Errorf("%s: the shared table maps the name Custom%d, which was never registered with it, to type %d", where, call.Code, t2)
				}
				refused++
			}
			continue
		}
		if call.Module {
			out, err := neatmath.NodeActivators.ActivateModuleByType([]float64{call.X}, nil, typ)
			if module {
				if err != nil || len(out) != 1 || !sameFloat(out[0], call.X) {
					return fmt.Errorf("%s: %s([%v]) = (%v, %v), expected [%v]", where, moduleNames[call.Code], call.X, out, err, call.X)
				}
			} else {
				if err == nil {
					return fmt.Errorf("%s: module activation with the type code %d (not a module type) returned %v instead of an error", where, call.Code, out)
				}
				refused++
			}
			continue
		}
		out, err := neatmath.NodeActivators.ActivateByType(call.X, nil, typ)
		if scalar {
			want := ref.f(call.X)
			if err != nil || math.IsNaN(out) || math.Abs(out-want) > 1e-12*(1+math.Abs(want)) {
				return fmt.Errorf("%s: %s(%v) = (%v, %v), definition gives %v", where, ref.name, call.X, out, err, want)
			}
		} else {
			if err == nil {
				return fmt.Errorf("%s: activation with the type code %d (not a scalar activation) returned %v instead of an error", where, call.Code, out)
			}
			refused++
		}
	}
	if refused >= 2 {
		rec.Class("several refused requests in one sequence")
	}
	rec.NonTrivial(hashOf(fmt.Sprint(c.Calls)))
	return nil
}

func TestC18Calls(t *testing.T) {
	runProp(t, "C18", "calls", 10000, 200000, GenC18Calls(), CheckC18Calls)
}

func TestC18Scalar(t *testing.T) {
	runProp(t, "C18", "scalar", 60000, 1500000, GenC18Scalar(), CheckC18Scalar)
}

func TestC18Module(t *testing.T) {
	runProp(t, "C18", "module", 10000, 200000, GenC18Module(), CheckC18Module)
}

func TestC18Name(t *testing.T) {
	runProp(t, "C18", "name", 3000, 30000, GenC18Name(), CheckC18Name)
}

func init() {
	registerReplay("C18", "scalar", CheckC18Scalar)
	registerReplay("C18", "module", CheckC18Module)
	registerReplay("C18", "name", CheckC18Name)
	registerReplay("C18", "calls", CheckC18Calls)
}
