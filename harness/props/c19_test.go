package props

import (
	"bytes"
	"fmt"
	"math"
	"math/big"
	"sort"
	"testing"

	"github.com/yaricom/goNEAT/v4/experiment"
	"pgregory.net/rapid"
)

/* C19 - result statistics equal their definitions for every series */

type C19Series struct {
	X []float64 `json:"x"`
	// EmptyKind, for an empty series: 0 = nil, 1 = empty non-nil slice, 2 = empty slice of a longer array
	EmptyKind int `json:"empty_kind,omitempty"`
	// Prior, when present, is another series whose statistics are asked for first (results discarded): every statistic is
	// a function of the series it is asked about, not of the series seen earlier in the process
	Prior []float64 `json:"prior,omitempty"`
}

// call runs one accessor and turns a panic into an error naming the accessor.
func call[T any](name string, f func() T) (v T, err error) {
	defer func() {
		if r := recover(); r != nil {
			err = fmt.Errorf("%s panicked: %v", name, r)
		}
	}()
	return f(), nil
}

// exactVariance: unbiased variance by the two-pass definition in 512-bit arithmetic, and sum(x^2 + mean^2) as a float64.
func exactVariance(x []float64) (variance, scale float64) {
	const prec = 512
	n := len(x)
	sum := new(big.Float).SetPrec(prec)
	for _, v := range x {
		sum.Add(sum, new(big.Float).SetPrec(prec).SetFloat64(v))
	}
	mean := new(big.Float).SetPrec(prec).Quo(sum, new(big.Float).SetPrec(prec).SetInt64(int64(n)))
	ss := new(big.Float).SetPrec(prec)
	for _, v := range x {
		d := new(big.Float).SetPrec(prec).Sub(new(big.Float).SetPrec(prec).SetFloat64(v), mean)
		ss.Add(ss, d.Mul(d, d))
	}
	ss.Quo(ss, new(big.Float).SetPrec(prec).SetInt64(int64(n-1)))
	variance, _ = ss.Float64()
	m, _ := mean.Float64()
	for _, v := range x {
		scale += v*v + m*m
	}
	return variance, scale
}

func refQuantile(sorted []float64, p float64) float64 {
	n := len(sorted)
	// smallest x(i), i = 1..n, with i/n >= p  (p*n is exact in binary for p in {.25,.5,.75})
	i := int(math.Ceil(p * float64(n)))
	if i < 1 {
		i = 1
	}
	return sorted[i-1]
}

func CheckC19Series(c C19Series, rec *Rec) error {
	if len(c.Prior) > 0 {
		p := experiment.Floats(append([]float64(nil), c.Prior...))
		for _, f := range []func() float64{p.Min, p.Max, p.Sum, p.Mean, p.Variance, p.StdDev, p.Median, p.Q25, p.Q75} {
			_, _ = call("prior", f)
		}
		if len(c.Prior) > len(c.X) {
			rec.Class("a longer series was summarised before")
		} else {
			rec.Class("another series was summarised before")
		}
	}
	x := experiment.Floats(append([]float64(nil), c.X...))
	n := len(x)
	if n == 0 {
		switch c.EmptyKind {
		case 1:
			x = experiment.Floats{}
			rec.Class("empty series that is not nil")
		case 2:
			x = experiment.Floats([]float64{1, 2, 3}[:0])
			rec.Class("empty series that is not nil")
		}
	}
	sorted := append([]float64(nil), c.X...)
	sortFloats(sorted)
	isSorted := true
	for i := 1; i < n; i++ {
		isSorted = isSorted && c.X[i-1] <= c.X[i]
	}
	type acc struct {
		name string
		f    func() float64
	}
	accs := []acc{{"Min", x.Min}, {"Max", x.Max}, {"Sum", x.Sum}, {"Mean", x.Mean}, {"Variance", x.Variance}, {"StdDev", x.StdDev},
		{"Median", x.Median}, {"Q25", x.Q25}, {"Q75", x.Q75},
		{"MeanVariance[0]", func() float64 { return x.MeanVariance()[0] }}, {"MeanVariance[1]", func() float64 { return x.MeanVariance()[1] }}}
	got := map[string]float64{}
	for _, a := range accs {
		v, err := call(a.name, a.f)
		if err != nil {
			return fmt.Errorf("%v (series of %d values, ascending=%v)", err, n, isSorted)
		}
		got[a.name] = v
	}
	for i := range c.X {
		if x[i] != c.X[i] {
			return fmt.Errorf("the accessors reordered the receiver: element %d was %v, is %v", i, c.X[i], x[i])
		}
	}
	if n >= 2 {
		// the same slice (same backing array, same length) holds other values now: every statistic is a function of the
		// values it is asked about
		neg := make([]float64, n)
		for i := range x {
			x[i] = -x[i]
			neg[n-1-i] = -sorted[i]
		}
		for _, q := range []struct {
			name string
			f    func() float64
			want float64
		}{{"Median", x.Median, refQuantile(neg, 0.5)}, {"Q25", x.Q25, refQuantile(neg, 0.25)}, {"Q75", x.Q75, refQuantile(neg, 0.75)},
			{"Min", x.Min, neg[0]}, {"Max", x.Max, neg[n-1]}} {
			v, err := call(q.name, q.f)
			if err != nil {
				return fmt.Errorf("%v (after the values of the series were negated in place)", err)
			}
			if v != q.want && !(math.IsNaN(v) && math.IsNaN(q.want)) {
				return fmt.Errorf("after the values of the series were negated in place: %s = %v, definition gives %v (n=%d)", q.name, v, q.want, n)
			}
		}
		for i := range x {
			x[i] = -x[i]
		}
	}
	if n == 0 {
		rec.Class("empty series")
		for name, v := range got {
			if name == "Sum" {
				if v != 0 {
					return fmt.Errorf("Sum of an empty series is %v, not 0", v)
				}
			} else if !math.IsNaN(v) {
				return fmt.Errorf("%s of an empty series is %v, not NaN", name, v)
			}
		}
		return nil
	}
	if !isSorted {
		rec.Class("not ascending")
		rec.NonTrivial(hashOf(n, math.Float64bits(c.X[0])>>44, math.Float64bits(sorted[n/2])>>44))
	}
	sumAbs, sum := 0.0, 0.0
	for _, v := range sorted {
		sum += v
		sumAbs += math.Abs(v)
	}
	mean := sum / float64(n)
	tol := 1e-9*sumAbs + 1e-300
	exact := func(name string, want float64) error {
		if got[name] != want {
			return fmt.Errorf("%s = %v, definition gives %v (n=%d)", name, got[name], want, n)
		}
		return nil
	}
	near := func(name string, want, tol float64) error {
		if math.IsInf(want, 0) || math.IsNaN(want) {
			rec.Class("reference overflows, value comparison skipped")
			return nil
		}
		if math.IsNaN(got[name]) || math.Abs(got[name]-want) > tol {
			return fmt.Errorf("%s = %v, definition gives %v (n=%d, tolerance %g)", name, got[name], want, n, tol)
		}
		return nil
	}
	for _, err := range []error{
		exact("Min", sorted[0]), exact("Max", sorted[n-1]),
		exact("Median", refQuantile(sorted, 0.5)), exact("Q25", refQuantile(sorted, 0.25)), exact("Q75", refQuantile(sorted, 0.75)),
		near("Sum", sum, tol), near("Mean", mean, tol/float64(n)), near("MeanVariance[0]", mean, tol/float64(n)),
	} {
		if err != nil {
			return err
		}
	}
	if n >= 2 {
		// reference: the two-pass definition evaluated in 512-bit arithmetic (the inputs are exact float64 values), so that
		// the tolerance only has to cover the rounding of a numerically stable float64 evaluation: relative 1e-9 plus the
		// second-order effect of a rounded mean, (n*eps)^2 * sum(x^2 + mean^2). A one-pass "sum of squares minus n*mean^2"
		// loses all digits on a series with a large common offset and is outside it.
		variance, scale := exactVariance(sorted)
		const eps = 2.220446049250313e-16
		vtol := 1e-9*math.Abs(variance) + 64*float64(n)*float64(n)*eps*eps*scale/float64(n-1) + 1e-300
		if maxAbs := math.Max(math.Abs(sorted[0]), math.Abs(sorted[n-1])); variance > 0 && maxAbs*maxAbs > 1e6*variance {
			rec.Class("large common offset, small spread")
		}
		if err := near("Variance", variance, vtol); err != nil {
			return err
		}
		if err := near("MeanVariance[1]", variance, vtol); err != nil {
			return err
		}
		if !math.IsInf(variance, 0) {
			sd := math.Sqrt(variance)
			sdTol := math.Sqrt(vtol)
			if sd > 0 {
				sdTol = math.Min(sdTol, vtol/sd) + 1e-9*sd
			}
			if err := near("StdDev", sd, sdTol); err != nil {
				return err
			}
		}
	} else {
		rec.Class("single value (unbiased variance undefined, not compared)")
	}
	return nil
}

func genC19Series(maxLen int) *rapid.Generator[C19Series] {
	gen := genSeries(maxLen)
	return rapid.Custom(func(t *rapid.T) C19Series {
		c := C19Series{X: gen.Draw(t, "series")}
		if len(c.X) == 0 {
			c.EmptyKind = rapid.IntRange(0, 2).Draw(t, "empty kind")
		}
		if rapid.IntRange(0, 2).Draw(t, "prior series") == 0 {
			c.Prior = gen.Draw(t, "prior")
		}
		return c
	})
}

func TestC19Series(t *testing.T) {
	runProp(t, "C19", "series", 20000, 300000, genC19Series(pick(200, 400)), CheckC19Series)
}

/* ---- aggregates over experiment records ---- */

type C19Exp struct {
	Exp ExpSpec `json:"experiment"`
	// Warm lists accessors (by index into expAccessors) that are called, results discarded, before the comparison:
	// every aggregate is a function of the recorded generations, not of the calls made earlier on the same object.
	Warm []int `json:"warm,omitempty"`
	// Receiver (used by the C15 round trip): what the experiment value that receives the saved record held before:
	// 0 nothing (fresh value), 1 the same record (read twice into one variable), 2 a longer unrelated record,
	// 3 the leftovers of a read that failed on a truncated copy of the file
	Receiver int `json:"receiver,omitempty"`
	// Reused: the trial values first held another record (the same generations with the opposite solved flags) and were asked
	// for their statistics (through the accessors that keep nothing: not the winner statistics, whose winner generation is a
	// public, documented cache field); then their Generations field received the record under check, as Trial.Decode does
	// with a trial variable that is used again
	Reused bool `json:"trial_values_used_before,omitempty"`
	// ViaRead: the record under check reaches the experiment value through Write and Read, and the value that reads it held a
	// longer record of other winners before and was asked for every statistic (the winner statistics included, through the
	// stored trial values): whatever it remembers belongs to the old record - the reader is the library's own code
	ViaRead bool `json:"read_into_used_experiment,omitempty"`
	// SortBetween: between the two comparison passes every trial's generations are sorted in place (Generations is a
	// sort.Interface, by execution time, then id); the second pass compares with the aggregates recomputed from the
	// generations in that order. Only applied when no trial has two solved generations or two generations with the same
	// execution time and id (the winner, and the order, would depend on the sort's tie handling)
	SortBetween bool `json:"sort_between_passes,omitempty"`
}

// expAccessors: every accessor of the experiment and of its trials, as calls whose results are discarded
var expAccessors = []func(e *experiment.Experiment){
	func(e *experiment.Experiment) { e.AvgWinnerStatistics() },
	func(e *experiment.Experiment) { e.BestFitness() },
	func(e *experiment.Experiment) { e.BestSpeciesAge() },
	func(e *experiment.Experiment) { e.BestComplexity() },
	func(e *experiment.Experiment) { e.AvgDiversity() },
	func(e *experiment.Experiment) { e.EpochsPerTrial() },
	func(e *experiment.Experiment) { e.SuccessRate() },
	func(e *experiment.Experiment) { e.TrialsSolved() },
	func(e *experiment.Experiment) { e.BestOrganism(false) },
	func(e *experiment.Experiment) { e.BestOrganism(true) },
	func(e *experiment.Experiment) {
		for i := range e.Trials {
			e.Trials[i].WinnerStatistics()
		}
	},
	func(e *experiment.Experiment) {
		for i := range e.Trials {
			e.Trials[i].BestOrganism(true)
			e.Trials[i].BestOrganism(false)
		}
	},
	func(e *experiment.Experiment) {
		for i := range e.Trials {
			e.Trials[i].Solved()
			e.Trials[i].Average()
			e.Trials[i].ChampionsFitness()
		}
	},
}

func genC19Exp() *rapid.Generator[C19Exp] { return genC19ExpM(false) }

// genC19ExpM: modular = records whose champions may carry modular genomes (C19 only: such a record can not be saved, see C15)
func genC19ExpM(modular bool) *rapid.Generator[C19Exp] {
	eg := genExpSpecM(modular)
	return rapid.Custom(func(t *rapid.T) C19Exp {
		c := C19Exp{Exp: eg.Draw(t, "experiment")}
		n := rapid.IntRange(0, 4).Draw(t, "warm-up calls")
		for i := 0; i < n; i++ {
			c.Warm = append(c.Warm, rapid.IntRange(0, len(expAccessors)-1).Draw(t, "accessor"))
		}
		if rapid.Bool().Draw(t, "used receiver") {
			c.Receiver = rapid.IntRange(1, 3).Draw(t, "receiver kind")
		}
		c.Reused = rapid.IntRange(0, 3).Draw(t, "trial values used before") == 0
		c.ViaRead = rapid.IntRange(0, 3).Draw(t, "read into a used experiment") == 0
		c.SortBetween = rapid.IntRange(0, 2).Draw(t, "sort between the passes") == 0
		return c
	})
}

func refMean(x []float64) float64 {
	if len(x) == 0 {
		return math.NaN()
	}
	s := 0.0
	for _, v := range x {
		s += v
	}
	return s / float64(len(x))
}

func sameOrNear(a, b float64) bool {
	return (math.IsNaN(a) && math.IsNaN(b)) || approxEq(a, b, 1e-9)
}

func firstSolved(t TrialSpec) *GenSpec {
	for i := range t.Generations {
		if t.Generations[i].Solved {
			return &t.Generations[i]
		}
	}
	return nil
}

func CheckC19Exp(c C19Exp, rec *Rec) (err error) {
	e := c.Exp.Build()
	if c.Reused {
		other := c.Exp
		other.Trials = append([]TrialSpec{}, c.Exp.Trials...)
		for i := range other.Trials {
			gs := append([]GenSpec{}, other.Trials[i].Generations...)
			for j := range gs {
				gs[j].Solved = !gs[j].Solved
			}
			other.Trials[i].Generations = gs
		}
		used := other.Build()
		if _, err := call("accessors of the record held before", func() int {
			used.TrialsSolved()
			used.SuccessRate()
			used.Solved()
			used.BestFitness()
			used.BestComplexity()
			used.AvgDiversity()
			used.EpochsPerTrial()
			for i := range used.Trials {
				used.Trials[i].Solved()
				used.Trials[i].Average()
				used.Trials[i].ChampionsFitness()
				used.Trials[i].Diversity()
				used.Trials[i].BestOrganism(true)
			}
			return 0
		}); err != nil {
			return err
		}
		for i := range used.Trials {
			used.Trials[i].Generations = e.Trials[i].Generations
		}
		e = used
		rec.Class("trial values that held another record before")
	}
	if hasModularChampion(c.Exp) {
		rec.Class("record with a modular champion (held in memory only)")
	}
	if c.ViaRead && !hasModularChampion(c.Exp) {
		var buf bytes.Buffer
		if werr := e.Write(&buf); werr != nil {
			rec.Class("record can not be written (left to C15)")
		} else {
			longer := c.Exp
			longer.Trials = append(append([]TrialSpec{}, c.Exp.Trials...), c.Exp.Trials...)
			for i := range longer.Trials {
				gs := append([]GenSpec{}, longer.Trials[i].Generations...)
				for j := range gs {
					gs[j].WinnerNodes, gs[j].WinnerGenes, gs[j].WinnerEvals, gs[j].Diversity = gs[j].WinnerNodes+1000, gs[j].WinnerGenes+2000, gs[j].WinnerEvals+3000, gs[j].Diversity+7
					if (i+j)%3 != 1 {
						gs[j].Solved = !gs[j].Solved
					}
				}
				longer.Trials[i].Generations = gs
			}
			holder := longer.Build()
			if _, err := call("accessors of the record held before", func() int {
				for _, a := range expAccessors {
					a(holder)
				}
				return 0
			}); err != nil {
				return err
			}
			if rerr := holder.Read(bytes.NewReader(buf.Bytes())); rerr != nil {
				rec.Class("record can not be read back (left to C15)")
			} else {
				e = holder
				rec.Class("record read into an experiment that held other winners and was asked about them")
				// the encoding has no place for the species reference of a champion: the restored record holds champions without one
				stripped := append([]TrialSpec{}, c.Exp.Trials...)
				for i := range stripped {
					gs := append([]GenSpec{}, stripped[i].Generations...)
					for j := range gs {
						gs[j].Champion.SpeciesAge = 0
					}
					stripped[i].Generations = gs
				}
				c.Exp.Trials = stripped
			}
		}
	}
	for _, w := range c.Warm {
		if _, err := call("accessor", func() int { expAccessors[w%len(expAccessors)](e); return 0 }); err != nil {
			return fmt.Errorf("warm-up call %d: %v", w, err)
		}
		rec.Class("accessors called before the comparison")
	}
	// two passes over the same object: the second one sees whatever the accessors of the first one left behind
	if err := checkExpPass(e, c, rec); err != nil {
		return err
	}
	c2 := c
	if c.SortBetween && sortableRecord(c.Exp) {
		c2.Exp.Trials = append([]TrialSpec{}, c.Exp.Trials...)
		for i := range c2.Exp.Trials {
			gs := append([]GenSpec{}, c2.Exp.Trials[i].Generations...)
			sort.SliceStable(gs, func(a, b int) bool {
				if gs[a].ExecutedNs != gs[b].ExecutedNs {
					return gs[a].ExecutedNs < gs[b].ExecutedNs
				}
				return gs[a].Id < gs[b].Id
			})
			c2.Exp.Trials[i].Generations = gs
		}
		if _, err := call("sort.Sort(Generations)", func() int {
			for i := range e.Trials {
				sort.Sort(e.Trials[i].Generations)
			}
			return 0
		}); err != nil {
			return err
		}
		rec.Class("generations sorted in place between the two passes")
	}
	if err := checkExpPass(e, c2, newRec()); err != nil {
		return fmt.Errorf("second evaluation of the accessors on the same experiment: %v", err)
	}
	return nil
}

// sortableRecord: sorting the generations of a trial has one outcome, and the winner does not depend on the order.
func sortableRecord(s ExpSpec) bool {
	for _, t := range s.Trials {
		solved := 0
		seen := map[[2]int64]bool{}
		for _, g := range t.Generations {
			if g.Solved {
				solved++
			}
			k := [2]int64{g.ExecutedNs, int64(g.Id)}
			if seen[k] {
				return false
			}
			seen[k] = true
		}
		if solved > 1 {
			return false
		}
	}
	return true
}

func checkExpPass(e *experiment.Experiment, c C19Exp, rec *Rec) (err error) {
	nT := len(c.Exp.Trials)
	solvedTrials := 0
	totalGens := 0
	for _, t := range c.Exp.Trials {
		if firstSolved(t) != nil {
			solvedTrials++
		}
		totalGens += len(t.Generations)
	}
	if nT == 0 {
		rec.Class("no trials")
	}
	if solvedTrials > 0 && solvedTrials < nT {
		rec.Class("solved and unsolved trials")
	}
	if nT >= 2 && totalGens >= 3 {
		rec.NonTrivial(hashOf(nT, totalGens, solvedTrials))
	}

	if got, err := call("TrialsSolved", e.TrialsSolved); err != nil || got != solvedTrials {
		return fmt.Errorf("TrialsSolved = %d (%v), recomputed %d", got, err, solvedTrials)
	}
	if got, err := call("Solved", e.Solved); err != nil || got != (solvedTrials > 0) {
		return fmt.Errorf("Solved = %v (%v), recomputed %v", got, err, solvedTrials > 0)
	}
	wantRate := 0.0
	if nT > 0 {
		wantRate = float64(solvedTrials) / float64(nT)
	}
	if got, err := call("SuccessRate", e.SuccessRate); err != nil || !sameOrNear(got, wantRate) {
		return fmt.Errorf("SuccessRate = %v (%v), recomputed %v", got, err, wantRate)
	}
	wantAvgGen := 0.0
	if nT > 0 {
		wantAvgGen = float64(totalGens) / float64(nT)
	}
	if got, err := call("AvgGenerationsPerTrial", e.AvgGenerationsPerTrial); err != nil || !sameOrNear(got, wantAvgGen) {
		return fmt.Errorf("AvgGenerationsPerTrial = %v (%v), recomputed %v", got, err, wantAvgGen)
	}

	bestFitness, err := call("BestFitness", e.BestFitness)
	if err != nil {
		return err
	}
	bestAge, err := call("BestSpeciesAge", e.BestSpeciesAge)
	if err != nil {
		return err
	}
	bestCompl, err := call("BestComplexity", e.BestComplexity)
	if err != nil {
		return err
	}
	avgDiv, err := call("AvgDiversity", e.AvgDiversity)
	if err != nil {
		return err
	}
	epochs, err := call("EpochsPerTrial", e.EpochsPerTrial)
	if err != nil {
		return err
	}
	for name, s := range map[string]experiment.Floats{"BestFitness": bestFitness, "BestSpeciesAge": bestAge, "BestComplexity": bestCompl, "AvgDiversity": avgDiv, "EpochsPerTrial": epochs} {
		if len(s) != nT {
			return fmt.Errorf("%s has %d entries for %d trials", name, len(s), nT)
		}
	}
	var wn, wg, we, wd float64
	for i, t := range c.Exp.Trials {
		if epochs[i] != float64(len(t.Generations)) {
			return fmt.Errorf("EpochsPerTrial[%d] = %v, trial has %d generations", i, epochs[i], len(t.Generations))
		}
		div := make([]float64, len(t.Generations))
		for j, g := range t.Generations {
			div[j] = float64(g.Diversity)
		}
		if !sameOrNear(avgDiv[i], refMean(div)) {
			return fmt.Errorf("AvgDiversity[%d] = %v, recomputed %v", i, avgDiv[i], refMean(div))
		}
		if len(t.Generations) == 0 {
			rec.Class("trial without generations")
			if bestFitness[i] != 0 || bestAge[i] != 0 || bestCompl[i] != 0 {
				return fmt.Errorf("best statistics of the empty trial %d are (%v, %v, %v), not zero", i, bestFitness[i], bestAge[i], bestCompl[i])
			}
		} else {
			maxFit := math.Inf(-1)
			for _, g := range t.Generations {
				maxFit = math.Max(maxFit, g.Champion.Fitness)
			}
			if bestFitness[i] != maxFit {
				return fmt.Errorf("BestFitness[%d] = %v, the best champion of the trial has %v", i, bestFitness[i], maxFit)
			}
			// ties in fitness: any champion with the maximal fitness may be reported
			okAge, okCompl, ties := false, false, 0
			for _, g := range t.Generations {
				if g.Champion.Fitness == maxFit {
					ties++
					okAge = okAge || bestAge[i] == float64(g.Champion.SpeciesAge)
					okCompl = okCompl || bestCompl[i] == float64(modelComplexity(g.Champion.Genome))
				}
			}
			if ties > 1 {
				rec.Class("best organism tie")
			}
			if !okAge {
				return fmt.Errorf("BestSpeciesAge[%d] = %v is not the species age of a best champion", i, bestAge[i])
			}
			if !okCompl {
				return fmt.Errorf("BestComplexity[%d] = %v is not the complexity (nodes + enabled genes) of a best champion", i, bestCompl[i])
			}
		}
		if w := firstSolved(t); w != nil {
			wn += float64(w.WinnerNodes)
			wg += float64(w.WinnerGenes)
			we += float64(w.WinnerEvals)
			wd += float64(w.Diversity)
		}
		if err := checkTrialAggregates(&e.Trials[i], t, rec); err != nil {
			return fmt.Errorf("trial %d: %v", i, err)
		}
	}
	// the best organism of the whole experiment: the fittest champion (of solved generations only, when asked), together with
	// the index of a trial that recorded it
	for _, onlySolvers := range []bool{false, true} {
		type res struct {
			fit   float64
			trial int
			ok    bool
		}
		got, err := call("Experiment.BestOrganism", func() res {
			o, trial, ok := e.BestOrganism(onlySolvers)
			if o == nil {
				return res{0, trial, ok}
			}
			return res{o.Fitness, trial, ok}
		})
		if err != nil {
			return err
		}
		best, found := math.Inf(-1), false
		for _, t := range c.Exp.Trials {
			for _, g := range t.Generations {
				if !onlySolvers || g.Solved {
					best, found = math.Max(best, g.Champion.Fitness), true
				}
			}
		}
		if got.ok != found || (found && got.fit != best) {
			return fmt.Errorf("Experiment.BestOrganism(%v) = (fitness %v, found %v), recomputed (%v, %v)", onlySolvers, got.fit, got.ok, best, found)
		}
		if found {
			holds := false
			if got.trial >= 0 && got.trial < len(c.Exp.Trials) {
				for _, g := range c.Exp.Trials[got.trial].Generations {
					holds = holds || ((!onlySolvers || g.Solved) && g.Champion.Fitness == best)
				}
			}
			if !holds {
				return fmt.Errorf("Experiment.BestOrganism(%v) names trial %d, which recorded no champion of the best fitness %v", onlySolvers, got.trial, best)
			}
			rec.Class("experiment-level best organism located")
		}
	}
	type quad struct{ a, b, c, d float64 }
	gotW, err := call("AvgWinnerStatistics", func() quad {
		a, b, c, d := e.AvgWinnerStatistics()
		return quad{a, b, c, d}
	})
	if err != nil {
		return err
	}
	wantW := quad{-1, -1, -1, -1}
	if solvedTrials > 0 {
		k := float64(solvedTrials)
		wantW = quad{wn / k, wg / k, we / k, wd / k}
	}
	if !sameOrNear(gotW.a, wantW.a) || !sameOrNear(gotW.b, wantW.b) || !sameOrNear(gotW.c, wantW.c) || !sameOrNear(gotW.d, wantW.d) {
		return fmt.Errorf("AvgWinnerStatistics = %+v, recomputed %+v", gotW, wantW)
	}
	return nil
}

func checkTrialAggregates(tr *experiment.Trial, t TrialSpec, rec *Rec) error {
	n := len(t.Generations)
	w := firstSolved(t)
	if got, err := call("Trial.Solved", tr.Solved); err != nil || got != (w != nil) {
		return fmt.Errorf("Solved = %v (%v), recomputed %v", got, err, w != nil)
	}
	cf, err := call("ChampionsFitness", tr.ChampionsFitness)
	if err != nil {
		return err
	}
	ca, err := call("ChampionSpeciesAges", tr.ChampionSpeciesAges)
	if err != nil {
		return err
	}
	cc, err := call("ChampionsComplexities", tr.ChampionsComplexities)
	if err != nil {
		return err
	}
	dv, err := call("Diversity", tr.Diversity)
	if err != nil {
		return err
	}
	type triple struct{ f, a, c experiment.Floats }
	avg, err := call("Average", func() triple {
		f, a, c := tr.Average()
		return triple{f, a, c}
	})
	if err != nil {
		return err
	}
	if len(cf) != n || len(ca) != n || len(cc) != n || len(dv) != n || len(avg.f) != n || len(avg.a) != n || len(avg.c) != n {
		return fmt.Errorf("per-generation series do not have %d entries", n)
	}
	for j, g := range t.Generations {
		if cf[j] != g.Champion.Fitness {
			return fmt.Errorf("ChampionsFitness[%d] = %v, recorded %v", j, cf[j], g.Champion.Fitness)
		}
		if ca[j] != float64(g.Champion.SpeciesAge) {
			return fmt.Errorf("ChampionSpeciesAges[%d] = %v, recorded %v", j, ca[j], g.Champion.SpeciesAge)
		}
		if cc[j] != float64(modelComplexity(g.Champion.Genome)) {
			return fmt.Errorf("ChampionsComplexities[%d] = %v, recomputed %v", j, cc[j], modelComplexity(g.Champion.Genome))
		}
		if dv[j] != float64(g.Diversity) {
			return fmt.Errorf("Diversity[%d] = %v, recorded %v", j, dv[j], g.Diversity)
		}
		if !sameOrNear(avg.f[j], refMean(g.Fitness)) || !sameOrNear(avg.a[j], refMean(g.Age)) || !sameOrNear(avg.c[j], refMean(g.Complexity)) {
			return fmt.Errorf("Average[%d] = (%v, %v, %v), recomputed (%v, %v, %v)", j, avg.f[j], avg.a[j], avg.c[j],
				refMean(g.Fitness), refMean(g.Age), refMean(g.Complexity))
		}
	}
	for _, onlySolvers := range []bool{false, true} {
		type bo struct {
			fit float64
			ok  bool
		}
		got, err := call("BestOrganism", func() bo {
			o, ok := tr.BestOrganism(onlySolvers)
			if o == nil {
				return bo{0, ok}
			}
			return bo{o.Fitness, ok}
		})
		if err != nil {
			return err
		}
		best, found := math.Inf(-1), false
		for _, g := range t.Generations {
			if !onlySolvers || g.Solved {
				best, found = math.Max(best, g.Champion.Fitness), true
			}
		}
		if got.ok != found || (found && got.fit != best) {
			return fmt.Errorf("BestOrganism(%v) = (%v, %v), recomputed (%v, %v)", onlySolvers, got.fit, got.ok, best, found)
		}
	}
	if w != nil {
		rec.Class("solved trial")
		type quad struct{ a, b, c, d int }
		got, err := call("WinnerStatistics", func() quad {
			a, b, c, d := tr.WinnerStatistics()
			return quad{a, b, c, d}
		})
		if err != nil {
			return err
		}
		if want := (quad{w.WinnerNodes, w.WinnerGenes, w.WinnerEvals, w.Diversity}); got != want {
			return fmt.Errorf("WinnerStatistics = %+v, first solved generation has %+v", got, want)
		}
	}
	return nil
}

func TestC19Exp(t *testing.T) {
	runProp(t, "C19", "aggregates", 600, 12000, genC19ExpM(true), CheckC19Exp)
}

func init() {
	registerReplay("C19", "series", CheckC19Series)
	registerReplay("C19", "aggregates", CheckC19Exp)
}
