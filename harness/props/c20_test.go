package props

import (
	"context"
	"errors"
	"fmt"
	"math"
	"sync"
	"testing"
	"time"

	"github.com/yaricom/goNEAT/v4/experiment"
	"github.com/yaricom/goNEAT/v4/neat"
	"github.com/yaricom/goNEAT/v4/neat/genetics"
	"pgregory.net/rapid"
)

/* C20 - an experiment run follows its trial/generation protocol exactly */

type C20Case struct {
	Genome      GenomeSpec `json:"genome"`
	Trials      int        `json:"trials"`
	Generations int        `json:"generations"`
	SolvedAt    []int      `json:"solved_at"`            // per trial: generation reported solved, -1 = never
	Fault       string     `json:"fault"`                // none | error | cancel
	ErrLate     bool       `json:"error_after_results,omitempty"` // the evaluator fails after it filled the generation's results (solved flag, champion) instead of before
	ErrKind     string     `json:"error_kind,omitempty"` // plain | canceled | deadline: what the evaluator's own error wraps (the run's context stays alive)
	// FaultAt: where the context is ended (faults cancel / deadline). "" = inside the evaluator of (FaultTrial, FaultGen);
	// "start" / "epoch" / "finish" = inside the observer's TrialRunStarted(FaultTrial) / EpochEvaluated(FaultTrial, FaultGen) /
	// TrialRunFinished(FaultTrial) - an observer that stops the run (a user interface, a budget)
	FaultAt     string     `json:"fault_at,omitempty"`
	FaultTrial  int        `json:"fault_trial"`
	FaultGen    int        `json:"fault_generation"`
	Observer    bool       `json:"observer"`
	PreSized    bool       `json:"trials_presized"`
	// Prior: the same experiment value was run once before (same configuration): every trial of that earlier run is solved
	// in generation PriorSolvedAt (-1: never), and it is aborted by an evaluator error in (PriorFaultTrial, 0) when that is
	// >= 0 - a caller retrying after a failure. The run under check must behave as on a fresh experiment value.
	Prior           bool `json:"run_once_before,omitempty"`
	PriorSolvedAt   int  `json:"prior_solved_at,omitempty"`
	PriorFaultTrial int  `json:"prior_fault_trial,omitempty"`
	ExtraSlots      int  `json:"trials_extra_slots,omitempty"`
	// CtxKind: how the run's context gets its options. "" = a fresh options object attached with neat.NewContext;
	// "copied" = the options are a by-value copy of an options object that was used before (another population spawned with
	// it), every setting overwritten, and the context comes from the copy's NeatContext(); "nested" = the context handed to
	// neat.NewContext already carries other options
	CtxKind string `json:"context_kind,omitempty"` // pre-sized record longer than the configured number of trials (an experiment value used before with more runs)
	// ObserverReads: the observer looks at the running experiment through its read-only accessors when a trial finishes
	// (progress reporting)
	ObserverReads bool `json:"observer_reads_experiment,omitempty"`
	// ObserverByValue: the observer is a field-less struct handed over by value (a stateless logging observer), not a pointer
	ObserverByValue bool `json:"observer_by_value,omitempty"`
	// MaxFitnessScore of the experiment value (a scale for the efficiency score, not a stopping rule); the evaluation's
	// fitness values are 1..11
	MaxFitnessScore float64    `json:"max_fitness_score,omitempty"`
	Parallel    bool       `json:"parallel_executor"`
	PopSize     int        `json:"pop_size"`
	Seed        int64      `json:"seed"`
}

func GenC20() *rapid.Generator[C20Case] {
	gg := genGenomeSpec(GenomeCfg{MinGenes: 1, MaxHidden: 3, MaxGenes: 8, ModestWeight: true, TraitBase1: true})
	return rapid.Custom(func(t *rapid.T) C20Case {
		c := C20Case{Genome: gg.Draw(t, "genome"), Trials: rapid.IntRange(1, 5).Draw(t, "trials"), Generations: rapid.IntRange(1, 8).Draw(t, "generations"),
			Observer: rapid.IntRange(0, 3).Draw(t, "observer") != 0, PreSized: rapid.Bool().Draw(t, "presized"), Parallel: rapid.IntRange(0, 3).Draw(t, "parallel") == 0,
			PopSize: rapid.IntRange(3, 8).Draw(t, "pop size"), Seed: int64(rapid.IntRange(0, 1<<30).Draw(t, "seed"))}
		c.ObserverByValue = c.Observer && rapid.IntRange(0, 3).Draw(t, "observer by value") == 0
		c.ObserverReads = c.Observer && rapid.IntRange(0, 2).Draw(t, "observer reads") == 0
		if rapid.IntRange(0, 3).Draw(t, "max fitness score") == 0 {
			c.MaxFitnessScore = float64(rapid.IntRange(1, 12).Draw(t, "score"))
		}
		if rapid.IntRange(0, 14).Draw(t, "zero trials") == 7 {
			c.Trials = 0 // nothing at all is to be run
		}
		if rapid.IntRange(0, 11).Draw(t, "zero generations") == 5 {
			c.Generations = 0 // the configured maximum is "no generation at all": trials are started and finished, nothing is evaluated
		}
		c.CtxKind = rapid.SampledFrom([]string{"", "", "", "copied", "nested"}).Draw(t, "context kind")
		if rapid.IntRange(0, 3).Draw(t, "run before") == 0 {
			c.Prior = true
			c.PriorSolvedAt = rapid.IntRange(-1, imax(c.Generations-1, -1)).Draw(t, "prior solved at")
			c.PriorFaultTrial = rapid.IntRange(-1, imax(c.Trials-1, -1)).Draw(t, "prior fault trial")
		}
		if c.PreSized && rapid.IntRange(0, 2).Draw(t, "longer record") == 0 {
			c.ExtraSlots = rapid.IntRange(1, 2).Draw(t, "extra slots")
		}
		for i := 0; i < c.Trials; i++ {
			s := -1
			if c.Generations > 0 && rapid.IntRange(0, 2).Draw(t, "solved") != 0 {
				s = rapid.IntRange(0, c.Generations-1).Draw(t, "solved at")
			}
			c.SolvedAt = append(c.SolvedAt, s)
		}
		c.Fault = rapid.SampledFrom([]string{"none", "none", "error", "cancel", "deadline"}).Draw(t, "fault")
		if c.Generations == 0 || c.Trials == 0 {
			c.Fault = "none"
		}
		if c.Fault == "error" {
			c.ErrKind = rapid.SampledFrom([]string{"plain", "plain", "canceled", "deadline"}).Draw(t, "error kind")
			c.ErrLate = rapid.Bool().Draw(t, "error after results")
		}
		if c.Fault != "none" {
			c.FaultTrial = rapid.IntRange(0, c.Trials-1).Draw(t, "fault trial")
			c.FaultGen = rapid.IntRange(0, c.Generations-1).Draw(t, "fault generation")
		}
		if (c.Fault == "cancel" || c.Fault == "deadline") && c.Observer {
			c.FaultAt = rapid.SampledFrom([]string{"", "", "start", "epoch", "finish"}).Draw(t, "fault at")
		}
		if (c.Fault == "cancel" || c.Fault == "deadline") && rapid.IntRange(0, 9).Draw(t, "context over at entry") == 0 {
			c.FaultAt, c.FaultTrial, c.FaultGen = "entry", 0, 0 // the context is over before the run starts
		}
		if c.Generations > 0 && c.Trials > 0 && rapid.IntRange(0, 9).Draw(t, "run until solved") == 4 {
			// "run until solved": the configured maximum is the largest int, every trial is solved early
			for i := range c.SolvedAt {
				if c.SolvedAt[i] < 0 {
					c.SolvedAt[i] = i % 3
				}
			}
			if c.Fault != "none" && c.FaultGen > c.SolvedAt[c.FaultTrial] {
				c.FaultGen = c.SolvedAt[c.FaultTrial]
			}
			if c.Prior && c.PriorSolvedAt < 0 {
				c.PriorSolvedAt = 1
			}
			c.Generations = math.MaxInt
		}
		return c
	})
}

type protoEvent struct {
	kind  string // start | eval | epoch | finish
	trial int
	gen   int
	note  string
}

func (e protoEvent) String() string {
	return fmt.Sprintf("%s(%d,%d)%s", e.kind, e.trial, e.gen, e.note)
}

var errInjected = errors.New("injected evaluator failure")

// manualDeadline is a context of the deadline kind whose expiry the harness triggers (no wall clock involved): from then
// on Done is closed and Err reports context.DeadlineExceeded, as for a context made by context.WithDeadline.
type manualDeadline struct {
	parent context.Context
	done   chan struct{}
	mu     sync.Mutex
	err    error
}

func newManualDeadline(parent context.Context) *manualDeadline {
	return &manualDeadline{parent: parent, done: make(chan struct{})}
}
func (m *manualDeadline) Deadline() (time.Time, bool)   { return time.Unix(4102444800, 0), true }
func (m *manualDeadline) Done() <-chan struct{}         { return m.done }
func (m *manualDeadline) Value(k interface{}) interface{} { return m.parent.Value(k) }
func (m *manualDeadline) Err() error {
	m.mu.Lock()
	defer m.mu.Unlock()
	return m.err
}
func (m *manualDeadline) expire() {
	m.mu.Lock()
	defer m.mu.Unlock()
	if m.err == nil {
		m.err = context.DeadlineExceeded
		close(m.done)
	}
}

// wrappedError is the evaluator's own failure; it may wrap a context error although the run's context is alive (an
// evaluator that gives its simulation a deadline of its own)
type wrappedError struct{ inner error }

func (w wrappedError) Error() string { return "injected evaluator failure: " + w.inner.Error() }
func (w wrappedError) Is(target error) bool {
	return target == errInjected || errors.Is(w.inner, target)
}

func injectedError(kind string) error {
	switch kind {
	case "canceled":
		return wrappedError{context.Canceled}
	case "deadline":
		return wrappedError{context.DeadlineExceeded}
	}
	return errInjected
}

type protoRecorder struct {
	c       C20Case
	cancel  context.CancelFunc
	trace   []protoEvent
	problem string // first protocol violation observed inside a callback
	// state of the current trial
	exp        *experiment.Experiment
	pop        *genetics.Population
	pops       map[*genetics.Population]int
	lastOrgs   map[*genetics.Organism]bool
	lastSolved bool
	faulted    bool
}

func (r *protoRecorder) fail(format string, args ...interface{}) {
	if r.problem == "" {
		r.problem = fmt.Sprintf(format, args...)
	}
}

func (r *protoRecorder) GenerationEvaluate(_ context.Context, pop *genetics.Population, epoch *experiment.Generation) error {
	t, g := epoch.TrialId, epoch.Id
	r.trace = append(r.trace, protoEvent{kind: "eval", trial: t, gen: g})
	if r.faulted {
		r.fail("generation (%d,%d) was evaluated after the fault", t, g)
	}
	if t < 0 || t >= r.c.Trials || g < 0 || g >= r.c.Generations {
		r.fail("generation (%d,%d) was evaluated although %d trials of %d generations are configured", t, g, r.c.Trials, r.c.Generations)
		return errInjected
	}
	if g == 0 {
		if _, seen := r.pops[pop]; seen {
			r.fail("trial %d runs on the population object of trial %d", t, r.pops[pop])
		}
		r.pops[pop] = t
		r.pop = pop
		if len(pop.Organisms) != r.c.PopSize {
			r.fail("trial %d starts with %d organisms, population size is %d", t, len(pop.Organisms), r.c.PopSize)
		}
		for _, o := range pop.Organisms {
			if o.Generation != 1 || o.Fitness != 0 {
				r.fail("trial %d does not start on a freshly spawned population (organism of generation %d, fitness %v)", t, o.Generation, o.Fitness)
				break
			}
		}
	} else {
		if pop != r.pop {
			r.fail("generation (%d,%d) is evaluated on another population object than generation 0 of the trial", t, g)
		}
		// the previous generation was not solved, so this must be a turned-over population
		for _, o := range pop.Organisms {
			if r.lastOrgs[o] {
				r.fail("generation (%d,%d) still contains an organism evaluated in the previous generation", t, g)
				break
			}
		}
	}
	r.lastOrgs = map[*genetics.Organism]bool{}
	var best *genetics.Organism
	for i, o := range pop.Organisms {
		o.Fitness = float64(1 + (i*7+g*3)%11)
		r.lastOrgs[o] = true
		if best == nil || o.Fitness > best.Fitness {
			best = o
		}
	}
	lateError := false
	if r.c.Fault != "none" && r.c.FaultAt == "" && t == r.c.FaultTrial && g == r.c.FaultGen {
		r.faulted = true
		if r.c.Fault == "error" {
			if !r.c.ErrLate {
				return injectedError(r.c.ErrKind)
			}
			lateError = true // e.g. the evaluator found the winner and then failed to store it
		} else {
			r.cancel()
		}
	}
	epoch.FillPopulationStatistics(pop)
	r.lastSolved = r.c.SolvedAt[t] == g
	if r.lastSolved {
		epoch.Solved = true
		epoch.Champion = best
		best.IsWinner = true
		epoch.WinnerNodes, epoch.WinnerGenes, epoch.WinnerEvals = len(best.Genotype.Nodes), len(best.Genotype.Genes), (g+1)*r.c.PopSize
	}
	if lateError {
		return injectedError(r.c.ErrKind)
	}
	return nil
}

func (r *protoRecorder) TrialRunStarted(trial *experiment.Trial) {
	r.trace = append(r.trace, protoEvent{kind: "start", trial: trial.Id, gen: -1})
	if len(trial.Generations) != 0 {
		r.fail("trial %d is announced with %d generations already recorded", trial.Id, len(trial.Generations))
	}
	r.observerFault("start", trial.Id, -1)
}

// observerFault ends the run's context from inside an observer callback when the case says so.
func (r *protoRecorder) observerFault(at string, trial, gen int) {
	if r.c.Fault == "none" || r.c.FaultAt != at || trial != r.c.FaultTrial || (at == "epoch" && gen != r.c.FaultGen) || r.faulted {
		return
	}
	r.faulted = true
	r.cancel()
}

func (r *protoRecorder) TrialRunFinished(trial *experiment.Trial) {
	r.trace = append(r.trace, protoEvent{kind: "finish", trial: trial.Id, gen: len(trial.Generations) - 1})
	if r.c.ObserverReads && r.exp != nil {
		_ = r.exp.MostRecentTrialEvalTime()
		_ = r.exp.TrialsSolved()
		_ = r.exp.SuccessRate()
		_ = r.exp.Solved()
		_ = r.exp.AvgTrialDuration()
	}
	r.observerFault("finish", trial.Id, -1)
}

func (r *protoRecorder) EpochEvaluated(trial *experiment.Trial, epoch *experiment.Generation) {
	r.trace = append(r.trace, protoEvent{kind: "epoch", trial: trial.Id, gen: epoch.Id})
	if len(trial.Generations) != epoch.Id+1 {
		r.fail("EpochEvaluated(%d,%d) while the trial records %d generations", trial.Id, epoch.Id, len(trial.Generations))
	}
	if r.pop == nil {
		return
	}
	same := 0
	for _, o := range r.pop.Organisms {
		if r.lastOrgs[o] {
			same++
		}
	}
	if epoch.Solved && same != len(r.lastOrgs) {
		r.fail("the population of the solved generation (%d,%d) was turned over (%d of %d evaluated organisms left)", trial.Id, epoch.Id, same, len(r.lastOrgs))
	}
	if !epoch.Solved && same != 0 && !r.faulted {
		r.fail("the population of the unsolved generation (%d,%d) was not turned over", trial.Id, epoch.Id)
	}
	r.observerFault("epoch", trial.Id, epoch.Id)
}

// statelessObserver is an observer without fields, used by value: it forwards to the recorder of the case under check.
type statelessObserver struct{}

var statelessSink *protoRecorder

func (statelessObserver) TrialRunStarted(t *experiment.Trial)  { statelessSink.TrialRunStarted(t) }
func (statelessObserver) TrialRunFinished(t *experiment.Trial) { statelessSink.TrialRunFinished(t) }
func (statelessObserver) EpochEvaluated(t *experiment.Trial, g *experiment.Generation) {
	statelessSink.EpochEvaluated(t, g)
}

// expectedTrace is the protocol model: the calls an undisturbed run makes; with a fault, the calls up to the fault.
func expectedTrace(c C20Case) (trace []protoEvent, complete bool) {
	faultHere := func(at string, t, g int) bool {
		return c.Fault != "none" && c.FaultAt == at && t == c.FaultTrial && (g == c.FaultGen || at == "start" || at == "finish")
	}
	if c.Fault != "none" && c.FaultAt == "entry" {
		return nil, false
	}
	for t := 0; t < c.Trials; t++ {
		if c.Observer {
			trace = append(trace, protoEvent{kind: "start", trial: t, gen: -1})
			if faultHere("start", t, -1) {
				return trace, false
			}
		}
		last := -1
		for g := 0; g < c.Generations; g++ {
			trace = append(trace, protoEvent{kind: "eval", trial: t, gen: g})
			if faultHere("", t, g) {
				return trace, false
			}
			if c.Observer {
				trace = append(trace, protoEvent{kind: "epoch", trial: t, gen: g})
				if faultHere("epoch", t, g) {
					return trace, false
				}
			}
			last = g
			if c.SolvedAt[t] == g {
				break
			}
		}
		if c.Observer {
			trace = append(trace, protoEvent{kind: "finish", trial: t, gen: last})
			if faultHere("finish", t, -1) {
				return trace, false
			}
		}
	}
	return trace, true
}

func CheckC20(c C20Case, rec *Rec) error {
	o := defaultOpts()
	o.PopSize, o.NumRuns, o.NumGenerations, o.Parallel = c.PopSize, c.Trials, c.Generations, c.Parallel
	o.MutateAddNodeProb, o.MutateAddLinkProb = 0.2, 0.3
	opts := o.Build()
	ctx, cancel := context.WithCancel(context.Background())
	defer cancel()
	byDeadline := func(parent context.Context) (context.Context, context.CancelFunc) {
		if c.Fault == "deadline" {
			m := newManualDeadline(parent)
			return m, m.expire
		}
		return context.WithCancel(parent)
	}
	ctx, cancel = byDeadline(context.Background())
	defer cancel()
	switch c.CtxKind {
	case "copied":
		used := defaultOpts()
		used.PopSize, used.NumRuns, used.NumGenerations = 5, c.Trials+2, c.Generations%1000+3
		u := used.Build()
		_, _ = genetics.NewPopulation(xorStart().Build(), u)
		_ = u.NeatContext()
		opts = deriveOptions(u, opts)
		ctx, cancel = byDeadline(opts.NeatContext())
		defer cancel()
		rec.Class("options copied from a used object, context from the copy")
	case "nested":
		outer := defaultOpts()
		outer.PopSize, outer.NumRuns, outer.NumGenerations = 5, c.Trials+2, c.Generations%1000+3
		ctx = neat.NewContext(neat.NewContext(ctx, outer.Build()), opts)
		rec.Class("context that already carried other options")
	default:
		ctx = neat.NewContext(ctx, opts)
	}
	r := &protoRecorder{c: c, cancel: cancel, pops: map[*genetics.Population]int{}}
	exp := &experiment.Experiment{Id: 1, Name: "protocol"}
	if c.PreSized {
		exp.Trials = make(experiment.Trials, c.Trials+c.ExtraSlots)
		if c.ExtraSlots > 0 {
			rec.Class("pre-sized record longer than the configured number of trials")
		}
	}
	var observer experiment.TrialRunObserver
	r.exp = exp
	if c.ObserverReads {
		rec.Class("observer reads the running experiment through its accessors")
	}
	if c.Observer {
		observer = r
		if c.ObserverByValue {
			statelessSink = r
			observer = statelessObserver{}
			rec.Class("observer handed over by value (field-less struct)")
		}
	}
	if c.MaxFitnessScore > 0 {
		exp.MaxFitnessScore = c.MaxFitnessScore
		rec.Class("experiment with a maximal fitness score")
	}
	seedLibrary(c.Seed)
	if c.Prior {
		pc := c
		pc.Fault, pc.Observer = "none", false
		pc.SolvedAt = make([]int, c.Trials)
		for i := range pc.SolvedAt {
			pc.SolvedAt[i] = c.PriorSolvedAt
		}
		if c.PriorFaultTrial >= 0 {
			pc.Fault, pc.ErrKind, pc.ErrLate, pc.FaultTrial, pc.FaultGen = "error", "plain", false, c.PriorFaultTrial, 0
		}
		pctx, pcancel := context.WithCancel(context.Background())
		prior := &protoRecorder{c: pc, cancel: pcancel, pops: map[*genetics.Population]int{}}
		_ = exp.Execute(neat.NewContext(pctx, opts), c.Genome.Build(), prior, nil)
		pcancel()
		rec.Class("the experiment value was run once before")
	}
	if c.Fault != "none" && c.FaultAt == "entry" {
		r.faulted = true
		cancel()
	}
	start := c.Genome.Build()
	err := exp.Execute(ctx, start, r, observer)
	if d := DiffSpec(c.Genome, Snapshot(start)); d != "" {
		return fmt.Errorf("the run modified the start genome it spawns every trial's population from: %s", d)
	}

	want, complete := expectedTrace(c)
	rec.Class("fault:" + c.Fault)
	if c.Generations == 0 {
		rec.Class("zero generations configured")
	}
	if c.Trials == 0 {
		rec.Class("zero trials configured")
	}
	if c.Generations == math.MaxInt {
		rec.Class("maximal number of generations configured (run until solved)")
	}
	if c.Observer {
		rec.Class("with observer")
	} else {
		rec.Class("without observer")
	}
	if c.Parallel {
		rec.Class("parallel executor")
	}
	earlySolve, faultAfterTrial := false, c.Fault != "none" && c.FaultTrial > 0
	for t, s := range c.SolvedAt {
		if s >= 0 && s < c.Generations-1 && (complete || t < c.FaultTrial) {
			earlySolve = true
		}
	}
	if earlySolve {
		rec.Class("trial solved before the last generation")
	}
	if faultAfterTrial {
		rec.Class("fault after a completed trial")
	}
	if earlySolve || faultAfterTrial {
		rec.NonTrivial(hashOf(c.Trials, c.Generations, fmt.Sprint(c.SolvedAt), c.Fault, c.FaultTrial, c.FaultGen, c.Observer))
	}

	if r.problem != "" {
		return fmt.Errorf("%s (trace %v)", r.problem, r.trace)
	}
	// the run must reproduce the model's trace (completely, or up to the fault)
	if len(r.trace) < len(want) {
		return fmt.Errorf("the run stopped early: calls %v, protocol expects %v (returned error: %v)", r.trace, want, err)
	}
	for i := range want {
		if r.trace[i] != want[i] {
			return fmt.Errorf("call %d is %v, the protocol expects %v\n got: %v\nwant: %v", i, r.trace[i], want[i], r.trace, want)
		}
	}
	rest := r.trace[len(want):]
	if complete {
		if len(rest) != 0 {
			return fmt.Errorf("unexpected calls after the last trial: %v", rest)
		}
		if err != nil {
			return fmt.Errorf("undisturbed run returned error %v", err)
		}
	} else {
		// after the fault: no evaluation, and no notification may be repeated
		seen := map[protoEvent]bool{}
		for _, e := range r.trace[:len(want)] {
			k := protoEvent{kind: e.kind, trial: e.trial, gen: e.gen}
			if e.kind == "finish" {
				k.gen = 0
			}
			seen[k] = true
		}
		for _, e := range rest {
			if e.kind == "eval" {
				return fmt.Errorf("generation (%d,%d) was evaluated after the fault at (%d,%d)", e.trial, e.gen, c.FaultTrial, c.FaultGen)
			}
			k := protoEvent{kind: e.kind, trial: e.trial, gen: e.gen}
			if e.kind == "finish" {
				k.gen = 0
			}
			if seen[k] {
				return fmt.Errorf("notification %v was delivered twice (trace %v)", e, r.trace)
			}
			seen[k] = true
		}
		// the trials completed before the fault are on record
		if c.FaultAt != "entry" {
			if len(exp.Trials) < c.FaultTrial {
				return fmt.Errorf("%d trials were completed before the fault, the record holds %d", c.FaultTrial, len(exp.Trials))
			}
			for t := 0; t < c.FaultTrial; t++ {
				tr := exp.Trials[t]
				wantGens := c.Generations
				if c.SolvedAt[t] >= 0 {
					wantGens = c.SolvedAt[t] + 1
				}
				if tr.Id != t || len(tr.Generations) != wantGens {
					return fmt.Errorf("trial %d was completed before the fault at (%d,%d); the record holds trial id %d with %d generations, %d were evaluated", t, c.FaultTrial, c.FaultGen, tr.Id, len(tr.Generations), wantGens)
				}
				for g, gen := range tr.Generations {
					if gen.Id != g || gen.TrialId != t || gen.Solved != (c.SolvedAt[t] == g) {
						return fmt.Errorf("trial %d (completed before the fault) generation %d recorded as (id %d, trial %d, solved %v)", t, g, gen.Id, gen.TrialId, gen.Solved)
					}
				}
			}
		}
		switch c.Fault {
		case "error":
			if !errors.Is(err, errInjected) {
				return fmt.Errorf("the evaluator's error (%s) was not returned to the caller: got %v", c.ErrKind, err)
			}
			rec.Class("evaluator error kind:" + c.ErrKind)
			if c.ErrLate && c.SolvedAt[c.FaultTrial] == c.FaultGen {
				rec.Class("evaluator failed in the generation it reported solved")
			}
		case "cancel", "deadline":
			wantErr := context.Canceled
			if c.Fault == "deadline" {
				wantErr = context.DeadlineExceeded
			}
			// was any evaluation still to come when the context ended? (the undisturbed run's trace tells)
			undisturbed := c
			undisturbed.Fault = "none"
			full, _ := expectedTrace(undisturbed)
			lastPlanned := true
			for _, e := range full[len(want):] {
				if e.kind == "eval" {
					lastPlanned = false
				}
			}
			if c.FaultAt != "" {
				rec.Class("context ended inside an observer callback (" + c.FaultAt + ")")
			}
			if lastPlanned {
				rec.Class("cancelled in the very last generation of the run (returned error not asserted)")
			} else if !errors.Is(err, wantErr) {
				return fmt.Errorf("the context's end (%v) was not returned to the caller: got %v", wantErr, err)
			}
		}
		return nil
	}
	// the population of the last trial, if that trial ended solved, is still the evaluated one (with or without an observer,
	// also after the last notification)
	if c.Trials > 0 && c.SolvedAt[c.Trials-1] >= 0 && r.pop != nil {
		same := 0
		for _, o := range r.pop.Organisms {
			if r.lastOrgs[o] {
				same++
			}
		}
		if same != len(r.lastOrgs) || len(r.pop.Organisms) != len(r.lastOrgs) {
			return fmt.Errorf("the last trial ended with a solved generation, but its population was turned over afterwards (%d of %d evaluated organisms left)", same, len(r.lastOrgs))
		}
	}
	// recorded results
	if len(exp.Trials) != c.Trials+c.ExtraSlots {
		return fmt.Errorf("%d trials recorded, %d configured (%d spare slots in the record)", len(exp.Trials), c.Trials, c.ExtraSlots)
	}
	for t := c.Trials; t < len(exp.Trials); t++ {
		if len(exp.Trials[t].Generations) != 0 {
			return fmt.Errorf("the spare slot %d of the record holds %d generations although only %d trials are configured", t, len(exp.Trials[t].Generations), c.Trials)
		}
	}
	for t, tr := range exp.Trials[:c.Trials] {
		if tr.Id != t {
			return fmt.Errorf("trial at position %d has id %d", t, tr.Id)
		}
		wantGens := c.Generations
		if c.SolvedAt[t] >= 0 {
			wantGens = c.SolvedAt[t] + 1
		}
		if len(tr.Generations) != wantGens {
			return fmt.Errorf("trial %d records %d generations, %d were evaluated", t, len(tr.Generations), wantGens)
		}
		for g, gen := range tr.Generations {
			if gen.Id != g || gen.TrialId != t || gen.Solved != (c.SolvedAt[t] == g) {
				return fmt.Errorf("trial %d generation %d recorded as (id %d, trial %d, solved %v)", t, g, gen.Id, gen.TrialId, gen.Solved)
			}
		}
	}
	return nil
}

func TestC20(t *testing.T) {
	runProp(t, "C20", "protocol", 1200, 25000, GenC20(), CheckC20)
}

func init() { registerReplay("C20", "protocol", CheckC20) }
