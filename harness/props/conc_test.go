package props

import (
	"fmt"
	"sync"
	"testing"

	"pgregory.net/rapid"
)

/* Independent cases evaluated at the same time.

   The properties C07, C11-C15, C18 and C19 speak about functions of their arguments (a distance, an expression, an
   evaluation, a depth, a round trip, an activation, a statistic). Callers evaluate organisms, compare genomes and
   summarise series from several goroutines at once (the library's own examples evaluate organisms in parallel), each
   goroutine on objects of its own. A case here is a small set of ordinary cases of one property: every member is first
   checked alone (a failure there is an ordinary violation) and then all members are checked repeatedly, each in its own
   goroutine, at the same time. The oracle is the property's own check; what the members share is only what the library
   keeps at package level. On a library without such state this can not fail, whatever the schedule; a failure found here
   depends on the schedule (it is reported with the case and replayed like any other, several times). */

type ConcCase[C any] struct {
	Cases  []C `json:"cases"`
	Rounds int `json:"rounds"`
}

func genConc[C any](g *rapid.Generator[C], maxMembers int) *rapid.Generator[ConcCase[C]] {
	return rapid.Custom(func(t *rapid.T) ConcCase[C] {
		return ConcCase[C]{Cases: rapid.SliceOfN(g, 2, maxMembers).Draw(t, "members"), Rounds: rapid.IntRange(2, 12).Draw(t, "rounds")}
	})
}

func checkConc[C any](check func(C, *Rec) error) func(ConcCase[C], *Rec) error {
	return func(c ConcCase[C], rec *Rec) error {
		for i, m := range c.Cases {
			if err := safeCheck(check, m, rec); err != nil {
				return fmt.Errorf("member %d, checked alone: %v", i, err)
			}
		}
		errs := make([]error, len(c.Cases))
		start := make(chan struct{})
		var wg sync.WaitGroup
		for i := range c.Cases {
			wg.Add(1)
			go func(i int) {
				defer wg.Done()
				<-start
				for r := 0; r < c.Rounds; r++ {
					if err := safeCheck(check, c.Cases[i], newRec()); err != nil {
						errs[i] = fmt.Errorf("round %d: %v", r, err)
						return
					}
				}
			}(i)
		}
		close(start)
		wg.Wait()
		rec.Class("independent cases evaluated at the same time")
		rec.NonTrivial(hashOf(len(c.Cases), c.Rounds, rec.shapes))
		for i, err := range errs {
			if err != nil {
				return fmt.Errorf("member %d passes when it is checked alone but fails while %d other, independent cases are evaluated at the same time in other goroutines (state shared at package level): %v",
					i, len(c.Cases)-1, err)
			}
		}
		return nil
	}
}

func runConc[C any](t *testing.T, property string, quick, thoroughChecks, maxMembers int, g *rapid.Generator[C], check func(C, *Rec) error) {
	runProp(t, property, "concurrent", quick, thoroughChecks, genConc(g, maxMembers), checkConc(check))
}

func TestC07Concurrent(t *testing.T) { runConc(t, "C07", 300, 6000, 4, GenC07(), CheckC07) }
func TestC11Concurrent(t *testing.T) { runConc(t, "C11", 100, 2000, 3, GenC11(), CheckC11) }
func TestC12Concurrent(t *testing.T) { runConc(t, "C12", 150, 3000, 3, GenC12(), CheckC12) }
func TestC13Concurrent(t *testing.T) { runConc(t, "C13", 60, 1200, 3, GenC13(), CheckC13) }
func TestC14Concurrent(t *testing.T) { runConc(t, "C14", 100, 2000, 3, GenC14(), CheckC14) }
func TestC15Concurrent(t *testing.T) { runConc(t, "C15", 150, 3000, 3, GenC15Genome(), CheckC15Genome) }
func TestC18Concurrent(t *testing.T) { runConc(t, "C18", 400, 8000, 4, GenC18Module(), CheckC18Module) }
func TestC19Concurrent(t *testing.T) {
	runConc(t, "C19", 400, 8000, 4, genC19Series(pick(200, 400)), CheckC19Series)
}

// several: a replay executes the case up to 25 times (the failure depends on the schedule).
func several[C any](f func(ConcCase[C], *Rec) error) func(ConcCase[C], *Rec) error {
	return func(c ConcCase[C], rec *Rec) error {
		for i := 0; i < 25; i++ {
			if err := f(c, rec); err != nil {
				return err
			}
		}
		return nil
	}
}

func init() {
	registerReplay("C07", "concurrent", several(checkConc(CheckC07)))
	registerReplay("C11", "concurrent", several(checkConc(CheckC11)))
	registerReplay("C12", "concurrent", several(checkConc(CheckC12)))
	registerReplay("C13", "concurrent", several(checkConc(CheckC13)))
	registerReplay("C14", "concurrent", several(checkConc(CheckC14)))
	registerReplay("C15", "concurrent", several(checkConc(CheckC15Genome)))
	registerReplay("C18", "concurrent", several(checkConc(CheckC18Module)))
	registerReplay("C19", "concurrent", several(checkConc(CheckC19Series)))
}
