// Package props holds the property checks C01..C20 for yaricom/goNEAT.
//
// Every property is written as a generator (all random choices, made through rapid) and a pure check function
// of the generated case. The case is a JSON-serialisable value, so a failing case can be replayed without rapid.
package props

import (
	"encoding/json"
	"fmt"
	"hash/fnv"
	"math"
	"sort"
	"strings"

	"github.com/yaricom/goNEAT/v4/neat"
	"github.com/yaricom/goNEAT/v4/neat/genetics"
	neatmath "github.com/yaricom/goNEAT/v4/neat/math"
	"github.com/yaricom/goNEAT/v4/neat/network"
)

/* ------------------------------------------------------------------------------------------------
   Genome specifications (the harness's own, lossless description of a genome) - reference model M2
   ------------------------------------------------------------------------------------------------ */

type TraitSpec struct {
	Id     int       `json:"id"`
	Params []float64 `json:"p"`
}

type NodeSpec struct {
	Id    int `json:"id"`
	Role  int `json:"role"` // network.NodeNeuronType
	Act   int `json:"act"`  // neatmath.NodeActivationType
	Trait int `json:"tr"`   // trait id or 0 for nil
}

type GeneSpec struct {
	In    int     `json:"in"`
	Out   int     `json:"out"`
	W     float64 `json:"w"`
	Rec   bool    `json:"rec"`
	Innov int64   `json:"inn"`
	Mut   float64 `json:"mut"`
	En    bool    `json:"en"`
	Trait int     `json:"tr"`
}

type ModuleSpec struct {
	Id    int     `json:"id"`
	Act   int     `json:"act"`
	Innov int64   `json:"inn"`
	Mut   float64 `json:"mut"`
	En    bool    `json:"en"`
	Trait int     `json:"tr"`
	Ins   []int   `json:"ins"`
	Outs  []int   `json:"outs"`
	// weights and recurrence flags of the module's links, inputs first, then outputs (absent: weight 1, not recurrent - what
	// the YAML reader builds; a module assembled in code may carry others)
	LinkW   []float64 `json:"link_w,omitempty"`
	LinkRec []bool    `json:"link_rec,omitempty"`
	// trait ids of the module's links (absent or 0: no trait, what the YAML reader builds)
	LinkTr []int `json:"link_tr,omitempty"`
}

func (m ModuleSpec) linkTr(i int) int {
	if i < len(m.LinkTr) {
		return m.LinkTr[i]
	}
	return 0
}

func (m ModuleSpec) linkW(i int) float64 {
	if i < len(m.LinkW) {
		return m.LinkW[i]
	}
	return 1.0
}

func (m ModuleSpec) linkRec(i int) bool { return i < len(m.LinkRec) && m.LinkRec[i] }

type GenomeSpec struct {
	Id      int          `json:"id"`
	Traits  []TraitSpec  `json:"traits"`
	Nodes   []NodeSpec   `json:"nodes"`
	Genes   []GeneSpec   `json:"genes"`
	Modules []ModuleSpec `json:"modules,omitempty"`
}

const (
	roleHidden = int(network.HiddenNeuron)
	roleInput  = int(network.InputNeuron)
	roleOutput = int(network.OutputNeuron)
	roleBias   = int(network.BiasNeuron)
)

func isSensorRole(r int) bool { return r == roleInput || r == roleBias }

// Build constructs a library genome from the specification using exported constructors only.
func (s GenomeSpec) Build() *genetics.Genome {
	traits := make([]*neat.Trait, len(s.Traits))
	traitById := map[int]*neat.Trait{}
	for i, ts := range s.Traits {
		tr := neat.NewTrait()
		tr.Id = ts.Id
		tr.Params = append([]float64(nil), ts.Params...)
		traits[i] = tr
		traitById[ts.Id] = tr
	}
	nodes := make([]*network.NNode, len(s.Nodes))
	nodeById := map[int]*network.NNode{}
	for i, ns := range s.Nodes {
		n := network.NewNNode(ns.Id, network.NodeNeuronType(ns.Role))
		n.ActivationType = neatmath.NodeActivationType(ns.Act)
		if ns.Trait != 0 {
			n.Trait = traitById[ns.Trait]
		}
		nodes[i] = n
		nodeById[ns.Id] = n
	}
	genes := make([]*genetics.Gene, len(s.Genes))
	for i, gs := range s.Genes {
		var tr *neat.Trait
		if gs.Trait != 0 {
			tr = traitById[gs.Trait]
		}
		link := network.NewLinkWithTrait(tr, gs.W, nodeById[gs.In], nodeById[gs.Out], gs.Rec)
		genes[i] = genetics.NewConnectionGene(link, gs.Innov, gs.Mut, gs.En)
	}
	if len(s.Modules) == 0 {
		return genetics.NewGenome(s.Id, traits, nodes, genes)
	}
	mods := make([]*genetics.MIMOControlGene, len(s.Modules))
	for i, ms := range s.Modules {
		cn := network.NewNNode(ms.Id, network.HiddenNeuron)
		cn.ActivationType = neatmath.NodeActivationType(ms.Act)
		if ms.Trait != 0 {
			cn.Trait = traitById[ms.Trait]
		}
		modLink := func(k int, in, out *network.NNode) *network.Link {
			if tr := ms.linkTr(k); tr != 0 {
				return network.NewLinkWithTrait(traitById[tr], ms.linkW(k), in, out, ms.linkRec(k))
			}
			return network.NewLink(ms.linkW(k), in, out, ms.linkRec(k))
		}
		for k, id := range ms.Ins {
			cn.Incoming = append(cn.Incoming, modLink(k, nodeById[id], cn))
		}
		for k, id := range ms.Outs {
			cn.Outgoing = append(cn.Outgoing, modLink(len(ms.Ins)+k, cn, nodeById[id]))
		}
		mods[i] = genetics.NewMIMOGene(cn, ms.Innov, ms.Mut, ms.En)
	}
	return genetics.NewModularGenome(s.Id, traits, nodes, genes, mods)
}

func traitId(t *neat.Trait) int {
	if t == nil {
		return 0
	}
	return t.Id
}

// Snapshot takes the value snapshot (M2) of a library genome. Run-time fields (phenotype, activations,
// derived parameter caches) are deliberately not part of it.
func Snapshot(g *genetics.Genome) GenomeSpec {
	s := GenomeSpec{Id: g.Id}
	for _, t := range g.Traits {
		s.Traits = append(s.Traits, TraitSpec{Id: t.Id, Params: append([]float64(nil), t.Params...)})
	}
	for _, n := range g.Nodes {
		s.Nodes = append(s.Nodes, NodeSpec{Id: n.Id, Role: int(n.NeuronType), Act: int(n.ActivationType), Trait: traitId(n.Trait)})
	}
	for _, gn := range g.Genes {
		gs := GeneSpec{W: gn.Link.ConnectionWeight, Rec: gn.Link.IsRecurrent, Innov: gn.InnovationNum,
			Mut: gn.MutationNum, En: gn.IsEnabled, Trait: traitId(gn.Link.Trait), In: math.MinInt32, Out: math.MinInt32}
		if gn.Link.InNode != nil {
			gs.In = gn.Link.InNode.Id
		}
		if gn.Link.OutNode != nil {
			gs.Out = gn.Link.OutNode.Id
		}
		s.Genes = append(s.Genes, gs)
	}
	for _, cg := range g.ControlGenes {
		ms := ModuleSpec{Id: cg.ControlNode.Id, Act: int(cg.ControlNode.ActivationType), Innov: cg.InnovationNum,
			Mut: cg.MutationNum, En: cg.IsEnabled, Trait: traitId(cg.ControlNode.Trait)}
		for _, l := range cg.ControlNode.Incoming {
			ms.Ins = append(ms.Ins, l.InNode.Id)
		}
		for _, l := range cg.ControlNode.Outgoing {
			ms.Outs = append(ms.Outs, l.OutNode.Id)
		}
		for _, l := range append(append([]*network.Link{}, cg.ControlNode.Incoming...), cg.ControlNode.Outgoing...) {
			ms.LinkW = append(ms.LinkW, l.ConnectionWeight)
			ms.LinkRec = append(ms.LinkRec, l.IsRecurrent)
			ms.LinkTr = append(ms.LinkTr, traitId(l.Trait))
		}
		s.Modules = append(s.Modules, ms)
	}
	return s
}

func floatsEq(a, b []float64) bool {
	if len(a) != len(b) {
		return false
	}
	for i := range a {
		if a[i] != b[i] {
			return false
		}
	}
	return true
}

func intsEq(a, b []int) bool {
	if len(a) != len(b) {
		return false
	}
	for i := range a {
		if a[i] != b[i] {
			return false
		}
	}
	return true
}

// DiffSpec returns "" when the two snapshots are genetically equal (ids of the genomes themselves are not
// compared), otherwise a description of the first difference.
func DiffSpec(a, b GenomeSpec) string {
	if len(a.Traits) != len(b.Traits) {
		return fmt.Sprintf("trait count %d != %d", len(a.Traits), len(b.Traits))
	}
	for i := range a.Traits {
		if a.Traits[i].Id != b.Traits[i].Id || !floatsEq(a.Traits[i].Params, b.Traits[i].Params) {
			return fmt.Sprintf("trait[%d] %v != %v", i, a.Traits[i], b.Traits[i])
		}
	}
	if len(a.Nodes) != len(b.Nodes) {
		return fmt.Sprintf("node count %d != %d", len(a.Nodes), len(b.Nodes))
	}
	for i := range a.Nodes {
		if a.Nodes[i] != b.Nodes[i] {
			return fmt.Sprintf("node[%d] %+v != %+v", i, a.Nodes[i], b.Nodes[i])
		}
	}
	if len(a.Genes) != len(b.Genes) {
		return fmt.Sprintf("gene count %d != %d", len(a.Genes), len(b.Genes))
	}
	for i := range a.Genes {
		if a.Genes[i] != b.Genes[i] {
			return fmt.Sprintf("gene[%d] %+v != %+v", i, a.Genes[i], b.Genes[i])
		}
	}
	if len(a.Modules) != len(b.Modules) {
		return fmt.Sprintf("module count %d != %d", len(a.Modules), len(b.Modules))
	}
	for i := range a.Modules {
		x, y := a.Modules[i], b.Modules[i]
		if x.Id != y.Id || x.Act != y.Act || x.Innov != y.Innov || x.Mut != y.Mut || x.En != y.En || x.Trait != y.Trait ||
			!intsEq(x.Ins, y.Ins) || !intsEq(x.Outs, y.Outs) {
			return fmt.Sprintf("module[%d] %+v != %+v", i, x, y)
		}
		for k := 0; k < len(x.Ins)+len(x.Outs); k++ {
			if x.linkW(k) != y.linkW(k) || x.linkRec(k) != y.linkRec(k) {
				return fmt.Sprintf("module[%d]: link %d has weight %v recurrent %v on one side, weight %v recurrent %v on the other", i, k, x.linkW(k), x.linkRec(k), y.linkW(k), y.linkRec(k))
			}
			if x.linkTr(k) != y.linkTr(k) {
				return fmt.Sprintf("module[%d]: link %d carries trait %d on one side, trait %d on the other", i, k, x.linkTr(k), y.linkTr(k))
			}
		}
	}
	return ""
}

/* ------------------------------------------------------------------------------------------------
   M1: well-formedness of a genome (exactly the clauses of C01)
   ------------------------------------------------------------------------------------------------ */

// IORoles maps ids of input/bias/output nodes of the ancestors to their role.
type IORoles map[int]int

func IORolesOf(s GenomeSpec) IORoles {
	r := IORoles{}
	for _, n := range s.Nodes {
		if n.Role != roleHidden {
			r[n.Id] = n.Role
		}
	}
	return r
}

// WellFormed checks M1 on a library genome. ancestors may be nil. It leaves g.Phenotype as it found it.
func WellFormed(g *genetics.Genome, ancestors IORoles) error {
	if err := wellFormedStructure(g, ancestors); err != nil {
		return err
	}
	saved := g.Phenotype
	_, err := g.Genesis(g.Id)
	g.Phenotype = saved
	if err != nil {
		return fmt.Errorf("genome can not be expressed as a network: %v", err)
	}
	return nil
}

// wellFormedStructure is WellFormed without the expression clause: it does not run any library code besides plain lookups.
func wellFormedStructure(g *genetics.Genome, ancestors IORoles) error {
	if len(g.Genes) == 0 {
		return fmt.Errorf("genome %d has no genes", g.Id)
	}
	nodeSet := map[*network.NNode]bool{}
	for i, n := range g.Nodes {
		if n == nil {
			return fmt.Errorf("nil node at %d", i)
		}
		if i > 0 && g.Nodes[i-1].Id >= n.Id {
			return fmt.Errorf("nodes not strictly ascending by id at index %d: %d then %d", i, g.Nodes[i-1].Id, n.Id)
		}
		nodeSet[n] = true
		if got := g.NodeWithId(n.Id); got != n {
			return fmt.Errorf("lookup of node id %d does not return the genome's node", n.Id)
		}
	}
	traitSet := map[*neat.Trait]bool{}
	for _, t := range g.Traits {
		traitSet[t] = true
	}
	for _, n := range g.Nodes {
		if n.Trait != nil && !traitSet[n.Trait] {
			return fmt.Errorf("node %d references a trait (id %d) that is not one of the genome's traits", n.Id, n.Trait.Id)
		}
	}
	for _, cg := range g.ControlGenes {
		if cg == nil || cg.ControlNode == nil {
			return fmt.Errorf("nil control gene / control node")
		}
		if t := cg.ControlNode.Trait; t != nil && !traitSet[t] {
			return fmt.Errorf("control node %d references a trait (id %d) that is not one of the genome's traits", cg.ControlNode.Id, t.Id)
		}
		for _, l := range append(append([]*network.Link{}, cg.ControlNode.Incoming...), cg.ControlNode.Outgoing...) {
			for _, end := range []*network.NNode{l.InNode, l.OutNode} {
				if end != cg.ControlNode && !nodeSet[end] {
					return fmt.Errorf("module %d is wired to node %d, which is not one of the genome's own nodes", cg.ControlNode.Id, end.Id)
				}
			}
			if l.Trait != nil && !traitSet[l.Trait] {
				return fmt.Errorf("a link of module %d references a trait (id %d) that is not one of the genome's traits", cg.ControlNode.Id, l.Trait.Id)
			}
		}
	}
	type key struct {
		in, out int
		rec     bool
	}
	seen := map[key]int64{}
	for i, gn := range g.Genes {
		if gn == nil || gn.Link == nil {
			return fmt.Errorf("nil gene/link at %d", i)
		}
		if i > 0 && g.Genes[i-1].InnovationNum >= gn.InnovationNum {
			return fmt.Errorf("genes not strictly ascending by innovation at index %d: %d then %d", i, g.Genes[i-1].InnovationNum, gn.InnovationNum)
		}
		in, out := gn.Link.InNode, gn.Link.OutNode
		if in == nil || out == nil {
			return fmt.Errorf("gene %d has a nil endpoint", gn.InnovationNum)
		}
		if !nodeSet[in] {
			return fmt.Errorf("gene %d: source node %d is not one of the genome's own nodes", gn.InnovationNum, in.Id)
		}
		if !nodeSet[out] {
			return fmt.Errorf("gene %d: target node %d is not one of the genome's own nodes", gn.InnovationNum, out.Id)
		}
		if g.NodeWithId(in.Id) != in || g.NodeWithId(out.Id) != out {
			return fmt.Errorf("gene %d: looking its endpoints up by id does not return them", gn.InnovationNum)
		}
		if out.IsSensor() {
			return fmt.Errorf("gene %d ends in sensor node %d", gn.InnovationNum, out.Id)
		}
		if gn.Link.Trait != nil && !traitSet[gn.Link.Trait] {
			return fmt.Errorf("gene %d references a trait (id %d) that is not one of the genome's traits", gn.InnovationNum, gn.Link.Trait.Id)
		}
		k := key{in.Id, out.Id, gn.Link.IsRecurrent}
		if other, dup := seen[k]; dup {
			return fmt.Errorf("genes %d and %d join the same ordered pair %d->%d with the same recurrence flag", other, gn.InnovationNum, in.Id, out.Id)
		}
		seen[k] = gn.InnovationNum
	}
	for id, role := range ancestors {
		n := g.NodeWithId(id)
		if n == nil {
			return fmt.Errorf("ancestor input/bias/output node %d is missing", id)
		}
		if int(n.NeuronType) != role {
			return fmt.Errorf("ancestor node %d changed role from %d to %d", id, role, n.NeuronType)
		}
	}
	return nil
}

// SpecWellFormed validates a generated specification against the same clauses before it is handed to the library
// (a generator bug must not look like a library bug).
func SpecWellFormed(s GenomeSpec) error {
	// structure only: whether the library can express the genome is for the checks to find out, a library that can not must
	// not look like a generator bug
	return wellFormedStructure(s.Build(), nil)
}

/* ------------------------------------------------------------------------------------------------
   Options
   ------------------------------------------------------------------------------------------------ */

// OptSpec is the JSON-serialisable subset of neat.Options that the harness generates.
type OptSpec struct {
	TraitParamMutProb      float64
	TraitMutationPower     float64
	WeightMutPower         float64
	DisjointCoeff          float64
	ExcessCoeff            float64
	MutdiffCoeff           float64
	CompatThreshold        float64
	AgeSignificance        float64
	SurvivalThresh         float64
	MutateOnlyProb         float64
	MutateRandomTraitProb  float64
	MutateLinkTraitProb    float64
	MutateNodeTraitProb    float64
	MutateLinkWeightsProb  float64
	MutateToggleEnableProb float64
	MutateGeneReenableProb float64
	MutateAddNodeProb      float64
	MutateAddLinkProb      float64
	MutateConnectSensors   float64
	InterspeciesMateRate   float64
	MateMultipointProb     float64
	MateMultipointAvgProb  float64
	MateSinglepointProb    float64
	MateOnlyProb           float64
	RecurOnlyProb          float64
	PopSize                int
	DropOffAge             int
	NewLinkTries           int
	BabiesStolen           int
	NumRuns                int
	NumGenerations         int
	Parallel               bool
	FastCompat             bool
	Activators             []int
	ActivatorProbs         []float64
}

func (o OptSpec) Build() *neat.Options {
	opts := &neat.Options{
		TraitParamMutProb:      o.TraitParamMutProb,
		TraitMutationPower:     o.TraitMutationPower,
		WeightMutPower:         o.WeightMutPower,
		DisjointCoeff:          o.DisjointCoeff,
		ExcessCoeff:            o.ExcessCoeff,
		MutdiffCoeff:           o.MutdiffCoeff,
		CompatThreshold:        o.CompatThreshold,
		AgeSignificance:        o.AgeSignificance,
		SurvivalThresh:         o.SurvivalThresh,
		MutateOnlyProb:         o.MutateOnlyProb,
		MutateRandomTraitProb:  o.MutateRandomTraitProb,
		MutateLinkTraitProb:    o.MutateLinkTraitProb,
		MutateNodeTraitProb:    o.MutateNodeTraitProb,
		MutateLinkWeightsProb:  o.MutateLinkWeightsProb,
		MutateToggleEnableProb: o.MutateToggleEnableProb,
		MutateGeneReenableProb: o.MutateGeneReenableProb,
		MutateAddNodeProb:      o.MutateAddNodeProb,
		MutateAddLinkProb:      o.MutateAddLinkProb,
		MutateConnectSensors:   o.MutateConnectSensors,
		InterspeciesMateRate:   o.InterspeciesMateRate,
		MateMultipointProb:     o.MateMultipointProb,
		MateMultipointAvgProb:  o.MateMultipointAvgProb,
		MateSinglepointProb:    o.MateSinglepointProb,
		MateOnlyProb:           o.MateOnlyProb,
		RecurOnlyProb:          o.RecurOnlyProb,
		PopSize:                o.PopSize,
		DropOffAge:             o.DropOffAge,
		NewLinkTries:           o.NewLinkTries,
		BabiesStolen:           o.BabiesStolen,
		NumRuns:                o.NumRuns,
		NumGenerations:         o.NumGenerations,
		PrintEvery:             1 << 30,
		EpochExecutorType:      neat.EpochExecutorTypeSequential,
		GenCompatMethod:        neat.GenomeCompatibilityMethodLinear,
		LogLevel:               "error",
	}
	if o.Parallel {
		opts.EpochExecutorType = neat.EpochExecutorTypeParallel
	}
	if o.FastCompat {
		opts.GenCompatMethod = neat.GenomeCompatibilityMethodFast
	}
	for _, a := range o.Activators {
		opts.NodeActivators = append(opts.NodeActivators, neatmath.NodeActivationType(a))
	}
	opts.NodeActivatorsProb = append([]float64(nil), o.ActivatorProbs...)
	return opts
}

/* ------------------------------------------------------------------------------------------------
   Reference compatibility distance (M4), from the two innovation sets
   ------------------------------------------------------------------------------------------------ */

type innovMut struct {
	Innov int64
	Mut   float64
}

// RefCompat returns the number of excess, disjoint and matching genes and the mean mutation difference.
func RefCompatParts(a, b []innovMut) (excess, disjoint, matching int, w float64) {
	ma := map[int64]float64{}
	var maxA, maxB int64 = math.MinInt64, math.MinInt64
	for _, x := range a {
		ma[x.Innov] = x.Mut
		if x.Innov > maxA {
			maxA = x.Innov
		}
	}
	mb := map[int64]float64{}
	for _, x := range b {
		mb[x.Innov] = x.Mut
		if x.Innov > maxB {
			maxB = x.Innov
		}
	}
	total := 0.0
	// iterate in list order for a deterministic summation order
	for _, x := range a {
		if mutB, ok := mb[x.Innov]; ok {
			matching++
			total += math.Abs(x.Mut - mutB)
		} else if len(b) == 0 || x.Innov > maxB {
			excess++
		} else {
			disjoint++
		}
	}
	for _, x := range b {
		if _, ok := ma[x.Innov]; !ok {
			if len(a) == 0 || x.Innov > maxA {
				excess++
			} else {
				disjoint++
			}
		}
	}
	if matching > 0 {
		w = total / float64(matching)
	}
	return
}

func RefCompat(a, b []innovMut, excessC, disjointC, mutdiffC float64) float64 {
	e, d, _, w := RefCompatParts(a, b)
	return excessC*float64(e) + disjointC*float64(d) + mutdiffC*w
}

func innovMutsOf(g *genetics.Genome) []innovMut {
	r := make([]innovMut, len(g.Genes))
	for i, gn := range g.Genes {
		r[i] = innovMut{gn.InnovationNum, gn.MutationNum}
	}
	return r
}

func specInnovMuts(s GenomeSpec) []innovMut {
	r := make([]innovMut, len(s.Genes))
	for i, gn := range s.Genes {
		r[i] = innovMut{gn.Innov, gn.Mut}
	}
	return r
}

/* ------------------------------------------------------------------------------------------------
   Small helpers
   ------------------------------------------------------------------------------------------------ */

func approxEq(a, b, rel float64) bool {
	if a == b {
		return true
	}
	if math.IsNaN(a) || math.IsNaN(b) || math.IsInf(a, 0) || math.IsInf(b, 0) {
		return false
	}
	return math.Abs(a-b) <= rel*(1+math.Max(math.Abs(a), math.Abs(b)))
}

func hashOf(parts ...interface{}) uint64 {
	h := fnv.New64a()
	for _, p := range parts {
		fmt.Fprintf(h, "%v|", p)
	}
	return h.Sum64()
}

func jsonStr(v interface{}) string {
	b, err := json.Marshal(v)
	if err != nil {
		return fmt.Sprintf("<%v>", err)
	}
	return string(b)
}

func sortedKeys(m map[string]int) []string {
	ks := make([]string, 0, len(m))
	for k := range m {
		ks = append(ks, k)
	}
	sort.Strings(ks)
	return ks
}

func joinErr(prefix string, err error) error {
	if err == nil {
		return nil
	}
	return fmt.Errorf("%s: %v", prefix, err)
}

func firstLines(s string, n int) string {
	ls := strings.Split(s, "\n")
	if len(ls) > n {
		ls = ls[:n]
	}
	return strings.Join(ls, "\n")
}
