package props

import (
	"bytes"
	"context"
	"fmt"
	"math"
	"reflect"
	"sort"
	"sync/atomic"

	"github.com/yaricom/goNEAT/v4/neat"
	"github.com/yaricom/goNEAT/v4/neat/genetics"
	"pgregory.net/rapid"
)

/* G-epochs: population histories. A scenario fixes the constructor, the options, a deterministic fitness program,
   the number of epochs and the seed of the library's random source; it therefore determines the whole run. */

type FitnessProg struct {
	Kind  string  `json:"kind"`
	Scale float64 `json:"scale"`
	Salt  int64   `json:"salt"`
}

var allFitnessKinds = []string{"zero", "constant", "uniform", "heavy", "dominant", "distinct", "stagnating", "sparse", "genome"}
var distinctFitnessKinds = []string{"distinct", "distinct", "stagnating", "heavy"}

func unitHash(parts ...int64) float64 {
	x := uint64(0x243f6a8885a308d3)
	for _, p := range parts {
		x = splitmix(x ^ uint64(p))
	}
	return float64(x>>11) / float64(1<<53)
}

// rankOf: position of index i when the indices 0..n-1 are ordered by a hash (a permutation derived from the salt).
func rankOf(salt, epoch int64, i, n int) int {
	type kv struct {
		k float64
		i int
	}
	ks := make([]kv, n)
	for j := range ks {
		ks[j] = kv{unitHash(salt, epoch, int64(j), 77), j}
	}
	sort.Slice(ks, func(a, b int) bool { return ks[a].k < ks[b].k || (ks[a].k == ks[b].k && ks[a].i < ks[b].i) })
	for r, e := range ks {
		if e.i == i {
			return r
		}
	}
	return 0
}

// fitnessOf is a pure function of (program, epoch, index, genome): finite, non-negative, at most ~1e12.
func fitnessOf(p FitnessProg, epoch, i, n int, g *genetics.Genome) float64 {
	v := rawFitnessOf(p, epoch, i, n, g)
	if v > 1.7e308 { // huge scales: stay finite
		v = 1.7e308
	}
	return v
}

func rawFitnessOf(p FitnessProg, epoch, i, n int, g *genetics.Genome) float64 {
	e := int64(epoch)
	switch p.Kind {
	case "zero":
		return 0
	case "constant":
		return p.Scale
	case "uniform":
		return p.Scale * unitHash(p.Salt, e, int64(i))
	case "heavy":
		z := -6.0
		for k := 0; k < 12; k++ {
			z += unitHash(p.Salt, e, int64(i), int64(k))
		}
		return p.Scale * math.Exp(3*z)
	case "dominant":
		if i == int(unitHash(p.Salt, e, 991)*float64(n))%n {
			return 1000 * p.Scale
		}
		return 0.01 * p.Scale * unitHash(p.Salt, e, int64(i))
	case "distinct":
		return p.Scale * float64(1+rankOf(p.Salt, e, i, n))
	case "stagnating": // distinct values whose maximum never grows: the population record is set once, then stagnation
		return p.Scale * (1 + float64(rankOf(p.Salt, e, i, n))/float64(n+1))
	case "sparse":
		if unitHash(p.Salt, e, int64(i), 5) < 0.7 {
			return 0
		}
		return p.Scale * unitHash(p.Salt, e, int64(i))
	case "signed": // values of both signs (the library replaces a negative adjusted fitness by a small positive constant); one organism is positive for certain
		if i == int(unitHash(p.Salt, e, 993)*float64(n))%n {
			return p.Scale * (0.5 + unitHash(p.Salt, e, int64(i)))
		}
		return p.Scale * (2*unitHash(p.Salt, e, int64(i), 3) - 1)
	case "genome": // depends on the genome only
		s := float64(len(g.Genes)) + 0.1*float64(len(g.Nodes))
		for _, gn := range g.Genes {
			s += math.Abs(math.Sin(gn.Link.ConnectionWeight))
		}
		return p.Scale * s
	}
	return 1
}

type Scenario struct {
	Ctor          string      `json:"constructor"`          // spawn | random | read | reread
	PreEpochs     int         `json:"pre_epochs,omitempty"` // reread: epochs evolved before the population is written and read back
	Start         GenomeSpec  `json:"start"`
	RandIn        int         `json:"rand_in,omitempty"`
	RandOut       int         `json:"rand_out,omitempty"`
	RandMaxHidden int         `json:"rand_max_hidden,omitempty"`
	RandRecurrent bool        `json:"rand_recurrent,omitempty"`
	RandLinkProb  float64     `json:"rand_link_prob,omitempty"`
	Opts          OptSpec     `json:"opts"`
	Epochs        int         `json:"epochs"`
	Fit           FitnessProg `json:"fitness"`
	Seed          int64       `json:"seed"`
	ExcludedKnown string      `json:"excluded_known_finding,omitempty"` // the generator steered around a recorded finding (counted)
	// Switch: from epoch At on, the turnovers receive another options object (same population size and executor, other
	// thresholds / rates), as a caller that adapts its settings during a run passes them; the executor object stays the same
	Switch *OptSwitch `json:"switch,omitempty"`
	// IdsMod > 0: after construction the organisms' genome ids are overwritten with index modulo IdsMod (ids are plain numbers a
	// caller may set; the library's own fixtures give all organisms of a species one id) - the property statements do not
	// involve the ids of the generation that is turned over
	IdsMod int `json:"genome_ids_modulo,omitempty"`
	// Warm: the executor object and/or the options object have a past. Executor: before this history the same executor
	// object turned over another population (other size, other options object) a few times. Options: the options object
	// is a by-value copy of another options object that was already in use (a population was built with it), with every
	// exported setting overwritten afterwards - the ordinary Go way of deriving a configuration.
	Warm *WarmSpec `json:"warm,omitempty"`
	// CancelTail: after the history one more turnover is attempted under an already cancelled context (every species'
	// reproduction gives up with the context's error); nothing is asserted about its result, it exercises the failure path
	CancelTail bool `json:"cancelled_turnover_at_the_end,omitempty"`
	// Winners > 0: the evaluation also flags organisms as winners (IsWinner), about one in Winners of them whatever their
	// fitness (an experiment that goes on after its first solver, or whose winner criterion is not the fitness rank); the flag
	// is a label for the records, not an input of the turnover
	Winners int `json:"winner_flag_one_in,omitempty"`
	// RetryAt > 0: the turnover of epoch RetryAt-1 is first attempted under a context that ends in the middle of it, then
	// repeated (histories with survival threshold 1, where a failed turnover leaves the population complete)
	RetryAt int `json:"cancelled_attempt_before_epoch,omitempty"`
	// Express: before every evaluation each organism's network is requested (Organism.Phenotype) and activated once, as an
	// evaluator does: the parents of the turnover carry phenotypes with a past
	Express bool `json:"organisms_expressed_before_evaluation,omitempty"`
	// FitSwitch: from epoch At on the organisms are evaluated by another fitness program (a task whose reward changes: a
	// positive record followed by all-zero values, a constant landscape that becomes heavy-tailed ...)
	FitSwitch *FitSwitch `json:"fitness_program_changes,omitempty"`
}

type FitSwitch struct {
	At  int         `json:"at"`
	Fit FitnessProg `json:"fitness"`
}

// fitAt: the fitness program in force at an epoch.
func (sc Scenario) fitAt(e int) FitnessProg {
	if sc.FitSwitch != nil && e >= sc.FitSwitch.At {
		return sc.FitSwitch.Fit
	}
	return sc.Fit
}

type WarmSpec struct {
	ExecPop    int  `json:"executor_served_population_of,omitempty"` // 0: executor is fresh
	ExecEpochs int  `json:"executor_epochs,omitempty"`
	CopiedOpts bool `json:"options_copied_from_used_object,omitempty"`
	OtherPop   int  `json:"other_object_pop_size,omitempty"`
}

type OptSwitch struct {
	At   int     `json:"at"`
	Opts OptSpec `json:"opts"`
}

type ScenarioCfg struct {
	MaxEpochs    int
	FitnessKinds []string
	Structural   bool
	Parallel     int // 0 never, 1 sometimes, 2 always
	Ctors        []string
	MaxPop       int
	MinPop       int
	MaxHidden    int
	HugeFitness  bool // also draw fitness scales close to the largest finite float64 (sums overflow to +Inf)
	NoSwitch     bool // never change the options object during the history
	ModularStart bool // one history in six is spawned from a modular start genome
	DupIds       bool // one history in five starts with non-unique genome ids
	CancelTail   bool // every second history ends with a turnover under a cancelled context
	Retry        bool // one history in six contains a turnover that is cancelled half way and then repeated
	Warm         bool // one history in four runs with an executor and/or options object that was used before (see WarmSpec)
	WideStolen   bool // one history in six asks for more stolen babies than half the population (up to three times its size)
	FitRegimes   bool // one history in five changes its fitness program at a generated epoch
	BigPops      bool // one history in thirty has a population of 65-513 organisms (one or two epochs), half of them with a tiny threshold: as many species as organisms
}

func genScenario(cfg ScenarioCfg) *rapid.Generator[Scenario] {
	maxHidden := cfg.MaxHidden
	if maxHidden == 0 {
		maxHidden = 2
	}
	gg := genGenomeSpec(GenomeCfg{MinGenes: 1, MaxHidden: maxHidden, MaxGenes: 10, ModestWeight: true, LargeRoom: true})
	mg := genGenomeSpec(GenomeCfg{MinGenes: 1, MaxHidden: maxHidden, MaxGenes: 10, ModestWeight: true, Modules: true}) // modules listed in ascending order of ids and innovation numbers, as getNextGeneInnovNum assumes
	if len(cfg.FitnessKinds) == 0 {
		cfg.FitnessKinds = allFitnessKinds
	}
	if len(cfg.Ctors) == 0 {
		cfg.Ctors = []string{"spawn", "spawn", "spawn", "random", "read", "reread", "file"}
	}
	return rapid.Custom(func(t *rapid.T) Scenario {
		sc := Scenario{Ctor: rapid.SampledFrom(cfg.Ctors).Draw(t, "constructor"), Start: gg.Draw(t, "start"),
			Opts:   drawOpts(t, OptsCfg{MinPop: cfg.MinPop, MaxPop: cfg.MaxPop, Structural: cfg.Structural || rapid.Bool().Draw(t, "structural")}),
			Epochs: rapid.IntRange(1, cfg.MaxEpochs).Draw(t, "epochs"), Seed: int64(rapid.IntRange(0, 1<<30).Draw(t, "seed"))}
		sc.Fit = FitnessProg{Kind: rapid.SampledFrom(cfg.FitnessKinds).Draw(t, "fitness program"),
			Scale: rapid.SampledFrom([]float64{1, 1, 1, 0.01, 16, 1e6, 1e9, 1e-6, 1e-14, 1e-40}).Draw(t, "fitness scale"), Salt: int64(rapid.IntRange(0, 1<<20).Draw(t, "fitness salt"))}
		if cfg.HugeFitness && rapid.IntRange(0, 7).Draw(t, "huge fitness") == 0 {
			// fitness values close to the largest finite float64: their sum overflows to +Inf, which the apportionment
			// survives through its "population died" fallback. Known finding (known_findings.txt, C02): when a single
			// value times the age significance overflows, the turnover panics - that class is excluded by construction
			// here (age significance forced to 1) and counted.
			sc.Fit.Scale = rapid.SampledFrom([]float64{1e300, 1e305, 1e308}).Draw(t, "huge fitness scale")
			if sc.Opts.AgeSignificance > 1 {
				sc.Opts.AgeSignificance = 1
				sc.ExcludedKnown = "fitness times age significance would overflow"
			}
		}
		if cfg.HugeFitness && sc.Fit.Scale < 1e300 && rapid.IntRange(0, 9).Draw(t, "denormal fitness") == 0 {
			// fitness values at the bottom of the float64 range: sums and averages underflow to denormals or to 0
			sc.Fit.Scale = rapid.SampledFrom([]float64{1e-300, 1e-308, 1e-310, 1e-320, 1e-322, 5e-324}).Draw(t, "denormal fitness scale")
		}
		switch cfg.Parallel {
		case 1:
			sc.Opts.Parallel = rapid.IntRange(0, 3).Draw(t, "parallel") == 0
		case 2:
			sc.Opts.Parallel = true
		}
		if cfg.ModularStart && rapid.IntRange(0, 5).Draw(t, "modular start") == 0 {
			sc.Ctor, sc.Start = "spawn", mg.Draw(t, "modular start genome")
			// every crossover of modular genomes hands the modules of both parents to the child (outside the domain of C01/C04,
			// an observation of DESIGN 5.2): the number of module copies doubles per generation, so these histories stay short
			if sc.Epochs > 6 {
				sc.Epochs = 1 + sc.Epochs%6
			}
		}
		if cfg.Warm && rapid.IntRange(0, 3).Draw(t, "warm objects") == 0 {
			w := &WarmSpec{OtherPop: rapid.IntRange(4, 40).Draw(t, "other pop size")}
			k := rapid.IntRange(0, 2).Draw(t, "warm kind")
			if k != 1 {
				w.ExecPop, w.ExecEpochs = w.OtherPop, rapid.IntRange(1, 3).Draw(t, "executor epochs")
			}
			w.CopiedOpts = k != 0
			sc.Warm = w
		}
		if rapid.IntRange(0, 7).Draw(t, "large start weights") == 0 {
			// weights of a long run with a large weight-mutation power (hundreds), in the start genome already
			sc.Start.Genes = append([]GeneSpec(nil), sc.Start.Genes...)
			for k := range sc.Start.Genes {
				sc.Start.Genes[k].W *= 100
				sc.Start.Genes[k].Mut *= 100
			}
		}
		if cfg.CancelTail {
			sc.CancelTail = rapid.Bool().Draw(t, "cancelled tail")
		}
		if cfg.Retry && rapid.IntRange(0, 5).Draw(t, "cancelled attempt") == 0 {
			sc.RetryAt = 1 + rapid.IntRange(0, sc.Epochs-1).Draw(t, "cancelled attempt at")
			sc.Opts.SurvivalThresh = 1
		}
		if cfg.BigPops && rapid.IntRange(0, 29).Draw(t, "big population") == 17 {
			sc.Opts.PopSize = rapid.SampledFrom([]int{65, 100, 129, 257, 300, 513}).Draw(t, "big population size")
			if sc.Opts.BabiesStolen > sc.Opts.PopSize/2 {
				sc.Opts.BabiesStolen = sc.Opts.PopSize / 2
			}
			if rapid.Bool().Draw(t, "one species per organism") {
				sc.Opts.CompatThreshold = 0.001
				sc.Opts.MutdiffCoeff = 3
			}
			sc.Epochs = rapid.IntRange(1, 2).Draw(t, "epochs (big population)")
			if sc.Ctor == "random" || sc.Ctor == "reread" {
				sc.Ctor = "spawn"
			}
		}
		sc.Express = rapid.IntRange(0, 2).Draw(t, "organisms expressed") == 0
		if cfg.WideStolen && rapid.IntRange(0, 5).Draw(t, "many stolen babies") == 0 {
			sc.Opts.BabiesStolen = rapid.IntRange(sc.Opts.PopSize/2+1, 3*sc.Opts.PopSize).Draw(t, "babies stolen (many)")
		}
		if cfg.FitRegimes && sc.Epochs >= 2 && rapid.IntRange(0, 4).Draw(t, "fitness regimes") == 0 {
			sc.FitSwitch = &FitSwitch{At: rapid.IntRange(1, sc.Epochs-1).Draw(t, "fitness switch at"),
				Fit: FitnessProg{Kind: rapid.SampledFrom(cfg.FitnessKinds).Draw(t, "second fitness program"),
					Scale: rapid.SampledFrom([]float64{1, 1, 0.01, 16, 1e6, 1e-6, 1e-14}).Draw(t, "second fitness scale"), Salt: int64(rapid.IntRange(0, 1<<20).Draw(t, "second fitness salt"))}}
		}
		if rapid.IntRange(0, 4).Draw(t, "winner flags") == 0 {
			sc.Winners = rapid.SampledFrom([]int{1, 2, 3, 7}).Draw(t, "winner one in")
		}
		if sc.Ctor == "reread" {
			sc.PreEpochs = rapid.IntRange(1, 8).Draw(t, "pre epochs")
		}
		if cfg.DupIds && rapid.IntRange(0, 4).Draw(t, "duplicate genome ids") == 0 {
			sc.IdsMod = rapid.IntRange(1, 3).Draw(t, "ids modulo")
		}
		if !cfg.NoSwitch && sc.Epochs >= 2 && rapid.IntRange(0, 3).Draw(t, "switch options") == 0 {
			o2 := drawOpts(t, OptsCfg{MinPop: cfg.MinPop, MaxPop: cfg.MaxPop, Structural: cfg.Structural})
			o2.PopSize, o2.Parallel = sc.Opts.PopSize, sc.Opts.Parallel
			if o2.BabiesStolen > o2.PopSize/2 {
				o2.BabiesStolen = o2.PopSize / 2
			}
			if sc.Fit.Scale >= 1e300 {
				o2.AgeSignificance = 1 // see the known finding on near-maximal fitness
			}
			sc.Switch = &OptSwitch{At: rapid.IntRange(1, sc.Epochs-1).Draw(t, "switch at"), Opts: o2}
		}
		if sc.Ctor == "random" {
			sc.RandIn = rapid.IntRange(2, 4).Draw(t, "rand in")
			sc.RandOut = rapid.IntRange(1, 3).Draw(t, "rand out")
			sc.RandMaxHidden = rapid.IntRange(1, 5).Draw(t, "rand max hidden")
			sc.RandRecurrent = rapid.Bool().Draw(t, "rand recurrent")
			sc.RandLinkProb = rapid.Float64Range(0.5, 1).Draw(t, "rand link prob")
			if rapid.IntRange(0, 5).Draw(t, "big random genomes") == 0 {
				// more than 32 nodes per random genome (a connection matrix of more than 1024 cells); short histories of a
				// small population keep the cost down
				sc.RandIn = rapid.IntRange(8, 20).Draw(t, "rand in (big)")
				sc.RandOut = rapid.IntRange(2, 6).Draw(t, "rand out (big)")
				sc.RandMaxHidden = rapid.IntRange(10, 30).Draw(t, "rand max hidden (big)")
				if sc.Opts.PopSize > 10 {
					sc.Opts.PopSize = imax(cfg.MinPop, 4+sc.Opts.PopSize%7)
					if sc.Opts.BabiesStolen > sc.Opts.PopSize/2 {
						sc.Opts.BabiesStolen = sc.Opts.PopSize / 2
					}
				}
				if sc.Epochs > 5 {
					sc.Epochs = 1 + sc.Epochs%5
				}
				sc.Switch, sc.Warm = nil, nil
			}
		}
		return sc
	})
}

// countdownCtx reports cancellation from the (left+1)-th poll of Done/Err on; safe for concurrent use.
type countdownCtx struct {
	context.Context
	left   atomic.Int64
	closed chan struct{}
}

var closedChan = func() chan struct{} { c := make(chan struct{}); close(c); return c }()

func (c *countdownCtx) Done() <-chan struct{} {
	if c.left.Add(-1) < 0 {
		return c.closed
	}
	return c.Context.Done()
}

func (c *countdownCtx) Err() error {
	if c.left.Load() < 0 {
		return context.Canceled
	}
	return c.Context.Err()
}

type epochHooks struct {
	// turnoverMustSucceed: a NextEpoch error is a violation of the property under check (C01, C02, C16); otherwise the
	// history ends there, counted, because the property only speaks about the populations that turnovers produce
	turnoverMustSucceed bool

	built  func(pop *genetics.Population, opts *neat.Options) error
	// switched is told when the history continues under another options object (before the 'before' hook of that epoch)
	switched func(opts *neat.Options)
	before func(epoch int, pop *genetics.Population) error
	after  func(epoch int, pop *genetics.Population) error
}

var errSkipScenario = fmt.Errorf("scenario outside the property's domain")

// buildPopulation constructs the population of a scenario (the library's random source is seeded first).
func buildPopulation(sc Scenario, opts *neat.Options) (*genetics.Population, error) {
	seedLibrary(sc.Seed)
	switch sc.Ctor {
	case "random":
		pop, err := genetics.NewPopulationRandom(sc.RandIn, sc.RandOut, sc.RandMaxHidden, sc.RandRecurrent, sc.RandLinkProb, opts)
		if err != nil {
			return nil, fmt.Errorf("NewPopulationRandom: %v", err)
		}
		for _, o := range pop.Organisms {
			if len(o.Genotype.Genes) == 0 {
				return nil, errSkipScenario // gene-less start genomes are outside every property's quantifier
			}
		}
		return pop, nil
	case "file":
		// a population file written by hand: every genome is the start genome with other weights, none of them went through
		// the library's duplicate (a start genome may carry structure that spawning would have to copy: hidden nodes that no
		// gene touches yet, disabled genes, nodes without traits)
		var buf bytes.Buffer
		for i := 0; i < opts.PopSize; i++ {
			s := sc.Start
			s.Id = i + 1
			s.Genes = append([]GeneSpec(nil), sc.Start.Genes...)
			for k := range s.Genes {
				d := 0.25 * float64((i+k)%4)
				s.Genes[k].W += d
				s.Genes[k].Mut += d
			}
			if err := s.Build().Write(&buf); err != nil {
				return nil, fmt.Errorf("Genome.Write: %v", err)
			}
		}
		pop, err := genetics.ReadPopulation(&buf, opts)
		if err != nil {
			return nil, fmt.Errorf("ReadPopulation (hand-written file): %v", err)
		}
		return pop, nil
	case "read", "reread":
		first, err := genetics.NewPopulation(sc.Start.Build(), opts)
		if err != nil {
			return nil, fmt.Errorf("NewPopulation: %v", err)
		}
		if sc.Ctor == "reread" {
			// an evolved population (genomes of different sizes, the largest numbers anywhere in the stream) is
			// checkpointed and restored; a failing turnover here is C02's business
			ctx := opts.NeatContext()
			exec := &genetics.SequentialPopulationEpochExecutor{}
			for e := 0; e < sc.PreEpochs; e++ {
				n := len(first.Organisms)
				for i, o := range first.Organisms {
					o.Fitness = fitnessOf(sc.Fit, 1000+e, i, n, o.Genotype)
				}
				if err := exec.NextEpoch(ctx, e, first); err != nil {
					return nil, errSkipScenario
				}
			}
		}
		var buf bytes.Buffer
		if err = first.Write(&buf); err != nil {
			return nil, fmt.Errorf("Population.Write: %v", err)
		}
		pop, err := genetics.ReadPopulation(&buf, opts)
		if err != nil {
			return nil, fmt.Errorf("ReadPopulation: %v", err)
		}
		return pop, nil
	default:
		start := sc.Start.Build()
		if sharedStartGenome != nil {
			start = sharedStartGenome
		}
		pop, err := genetics.NewPopulation(start, opts)
		if err != nil {
			return nil, fmt.Errorf("NewPopulation: %v", err)
		}
		return pop, nil
	}
}

// overwriteExported copies every exported field of src into dst (what a caller does setting by setting).
func overwriteExported(dst, src *neat.Options) {
	dv, sv := reflect.ValueOf(dst).Elem(), reflect.ValueOf(src).Elem()
	for i := 0; i < dv.NumField(); i++ {
		if dv.Field(i).CanSet() {
			dv.Field(i).Set(sv.Field(i))
		}
	}
}

// preparedExecutor, when set, is handed out by the next newExecutor call for the sequential executor (C17: an executor object
// that served unrelated work before the run started)
var preparedExecutor genetics.PopulationEpochExecutor

// executorPerTurnover, when set, makes runScenario take a new executor object for every turnover (C17)
var executorPerTurnover bool

// sharedStartGenome, when set, is the genome object every spawning constructor call starts from (C17: two runs from one object)
var sharedStartGenome *genetics.Genome

func newExecutor(opts *neat.Options) genetics.PopulationEpochExecutor {
	if preparedExecutor != nil && opts.EpochExecutorType != neat.EpochExecutorTypeParallel {
		e := preparedExecutor
		preparedExecutor = nil
		return e
	}
	if opts.EpochExecutorType == neat.EpochExecutorTypeParallel {
		return &genetics.ParallelPopulationEpochExecutor{}
	}
	return &genetics.SequentialPopulationEpochExecutor{}
}

// runScenario builds the population and turns it over sc.Epochs times, assigning fitness from the program.
// buildOptions produces the options object of a scenario run; C17 swaps it to derive the object from a used one.
var buildOptions = func(o OptSpec) *neat.Options { return o.Build() }

func runScenario(sc Scenario, h epochHooks, rec *Rec) error {
	opts := buildOptions(sc.Opts)
	var otherOpts *neat.Options
	if sc.Warm != nil {
		o := sc.Opts
		o.PopSize = sc.Warm.OtherPop
		if o.BabiesStolen > o.PopSize/2 {
			o.BabiesStolen = o.PopSize / 2
		}
		o.CompatThreshold, o.DropOffAge = o.CompatThreshold*2+1, o.DropOffAge+3
		otherOpts = o.Build()
		if sc.Warm.CopiedOpts {
			// the other object is used (a population is built with it), copied by value, and the copy receives this
			// history's settings
			seedLibrary(sc.Seed)
			if _, err := genetics.NewPopulation(xorStart().Build(), otherOpts); err != nil {
				return fmt.Errorf("NewPopulation for the other options object: %v", err)
			}
			derived := *otherOpts
			overwriteExported(&derived, opts)
			opts = &derived
			rec.Class("options object is a by-value copy of a used one")
		}
	}
	pop, err := buildPopulation(sc, opts)
	if err == errSkipScenario {
		rec.Class("skipped: constructor outside the domain (gene-less random genome / failing turnover before the checkpoint)")
		return nil
	}
	if err != nil {
		return err
	}
	rec.Class("constructor:" + sc.Ctor)
	rec.Class("fitness:" + sc.Fit.Kind)
	if sc.FitSwitch != nil {
		rec.Class("fitness program changes during the history")
	}
	if len(pop.Organisms) > 64 {
		rec.Class("population of more than 64 organisms")
		if len(pop.Species) > 64 {
			rec.Class("more than 64 species")
		}
	}
	if sc.Opts.BabiesStolen > sc.Opts.PopSize/2 {
		rec.Class("more stolen babies requested than half the population")
	}
	if sc.ExcludedKnown != "" {
		rec.Class("excluded by construction (known finding): " + sc.ExcludedKnown)
	}
	if sc.Opts.Parallel {
		rec.Class("parallel executor")
	} else {
		rec.Class("sequential executor")
	}
	if h.built != nil {
		if err := h.built(pop, opts); err != nil {
			return fmt.Errorf("after construction: %v", err)
		}
	}
	if sc.IdsMod > 0 {
		for i, o := range pop.Organisms {
			o.Genotype.Id = i % sc.IdsMod
		}
		rec.Class("organisms start with non-unique genome ids")
	}
	ctx := opts.NeatContext()
	exec := newExecutor(opts)
	if sc.Warm != nil && sc.Warm.ExecPop > 0 {
		wpop, err := genetics.NewPopulation(xorStart().Build(), otherOpts)
		if err != nil {
			return fmt.Errorf("NewPopulation for the executor's earlier population: %v", err)
		}
		wctx := otherOpts.NeatContext()
		for e := 0; e < sc.Warm.ExecEpochs; e++ {
			for i, o := range wpop.Organisms {
				o.Fitness = float64(1 + (i*7+e)%5)
			}
			if err := exec.NextEpoch(wctx, e, wpop); err != nil {
				if !h.turnoverMustSucceed {
					break
				}
				return fmt.Errorf("the executor's earlier population, epoch %d: NextEpoch returned error: %v", e, err)
			}
		}
		rec.Class("executor object turned over another population before")
	}
	for e := 0; e < sc.Epochs; e++ {
		if sc.Switch != nil && e == sc.Switch.At {
			opts = buildOptions(sc.Switch.Opts)
			ctx = opts.NeatContext()
			rec.Class("options object replaced during the history")
			if h.switched != nil {
				h.switched(opts)
			}
		}
		if executorPerTurnover && e > 0 {
			exec = newExecutor(opts)
		}
		if sc.Express {
			for _, o := range pop.Organisms {
				if net, err := o.Phenotype(); err == nil && net != nil {
					in := make([]float64, len(net.BaseNodes()))
					for k := range in {
						in[k] = 1
					}
					sensors := 0
					for _, nd := range net.BaseNodes() {
						if nd.IsSensor() {
							sensors++
						}
					}
					if net.LoadSensors(in[:sensors]) == nil {
						_, _ = net.ForwardSteps(1)
					}
				}
			}
			rec.Class("organisms expressed and activated before the evaluation")
		}
		n := len(pop.Organisms)
		for i, o := range pop.Organisms {
			o.Fitness = fitnessOf(sc.fitAt(e), e, i, n, o.Genotype)
			if sc.Winners > 0 {
				o.IsWinner = int(unitHash(sc.Fit.Salt, int64(e), int64(i), 77)*1000)%sc.Winners == 0
			}
		}
		if sc.Winners > 0 {
			rec.Class("organisms flagged as winners by the evaluation")
		}
		if h.before != nil {
			if err := h.before(e, pop); err != nil {
				return fmt.Errorf("before epoch %d: %v", e, err)
			}
		}
		attempted := false
		if sc.RetryAt == e+1 {
			// the caller's context ends in the middle of this turnover (from its k-th poll on); the turnover fails, the
			// population is still complete (survival threshold 1: nobody was removed yet), the caller evaluates it again and
			// repeats the turnover
			cctx := &countdownCtx{Context: ctx, closed: closedChan}
			cctx.left.Store(int64(1 + sc.Seed%11))
			if err := exec.NextEpoch(cctx, e, pop); err == nil {
				attempted = true // the countdown did not run out: this was the turnover
			} else {
				if len(pop.Organisms) != n || checkPartition(pop, n) != nil {
					rec.Class("history ended: population not complete after a cancelled turnover")
					return nil
				}
				for i, o := range pop.Organisms {
					o.Fitness = fitnessOf(sc.fitAt(e), e, i, n, o.Genotype)
				}
				rec.Class("turnover repeated after a cancelled attempt")
			}
		}
		if !attempted {
			if err := exec.NextEpoch(ctx, e, pop); err != nil {
				if !h.turnoverMustSucceed {
					rec.Class("history ended by a failing turnover (outside this property, see C02)")
					return nil
				}
				return fmt.Errorf("epoch %d: NextEpoch returned error: %v", e, err)
			}
		}
		if h.after != nil {
			if err := h.after(e, pop); err != nil {
				return fmt.Errorf("after epoch %d: %v", e, err)
			}
		}
	}
	if sc.CancelTail {
		// the context reports cancellation from its k-th poll on (k from the seed, 0 = cancelled from the start): some species
		// give up at once, others are in the middle of their reproduction when the turnover fails
		var cctx context.Context = &countdownCtx{Context: ctx, closed: closedChan}
		cctx.(*countdownCtx).left.Store(int64(sc.Seed % 7 * 3))
		n := len(pop.Organisms)
		for i, o := range pop.Organisms {
			o.Fitness = fitnessOf(sc.Fit, sc.Epochs, i, n, o.Genotype)
		}
		if err := exec.NextEpoch(cctx, sc.Epochs, pop); err != nil {
			rec.Class("turnover under a cancelled context returned an error")
		} else {
			rec.Class("turnover under a cancelled context succeeded")
		}
		// the caller goes on using the population after the failed turnover (the turnover has returned: nothing of it may
		// still be running)
		for _, sp := range pop.Species {
			sp.ExpectedOffspring += 0
			sp.Age += 0
		}
		for _, o := range pop.Organisms {
			o.Fitness += 0
			o.ExpectedOffspring += 0
			if o.Genotype != nil && len(o.Genotype.Genes) > 0 {
				o.Genotype.Genes[0].MutationNum += 0
				o.Genotype.Id += 0
			}
		}
	}
	return nil
}

/* ---- invariants shared by C01, C02, C03, C10, C16 ---- */

// ancestorsOf: input/bias/output roles that every descendant must retain.
func ancestorsOf(pop *genetics.Population) IORoles {
	anc := IORoles{}
	for _, o := range pop.Organisms {
		for _, n := range o.Genotype.Nodes {
			if int(n.NeuronType) != roleHidden {
				anc[n.Id] = int(n.NeuronType)
			}
		}
	}
	return anc
}

func checkAllWellFormed(pop *genetics.Population, anc IORoles) error {
	for i, o := range pop.Organisms {
		if o.Genotype == nil {
			return fmt.Errorf("organism %d has no genome", i)
		}
		if err := WellFormed(o.Genotype, anc); err != nil {
			return fmt.Errorf("organism %d (genome %d): %v", i, o.Genotype.Id, err)
		}
	}
	return nil
}

// c02Tracker holds what the C02 clauses need across the epochs of one history.
type c02Tracker struct {
	everSeen map[int]bool
	preOrgs  map[*genetics.Organism]bool
	preAges  map[*genetics.Species]int
	preIds   map[*genetics.Species]int
}

func newC02Tracker(pop *genetics.Population) *c02Tracker {
	t := &c02Tracker{everSeen: map[int]bool{}}
	for _, sp := range pop.Species {
		t.everSeen[sp.Id] = true
	}
	return t
}

func (t *c02Tracker) snapshot(pop *genetics.Population) {
	t.preOrgs = map[*genetics.Organism]bool{}
	t.preAges = map[*genetics.Species]int{}
	t.preIds = map[*genetics.Species]int{}
	for _, o := range pop.Organisms {
		t.preOrgs[o] = true
	}
	for _, sp := range pop.Species {
		t.preAges[sp] = sp.Age
		t.preIds[sp] = sp.Id
	}
}

// checkPartition: the membership clauses of C02 that hold for every population (also right after construction).
func checkPartition(pop *genetics.Population, popSize int) error {
	if len(pop.Organisms) != popSize {
		return fmt.Errorf("population has %d organisms, configured size is %d", len(pop.Organisms), popSize)
	}
	listed := map[*genetics.Organism]*genetics.Species{}
	ids := map[int]bool{}
	total := 0
	for _, sp := range pop.Species {
		if len(sp.Organisms) == 0 {
			return fmt.Errorf("species %d is empty", sp.Id)
		}
		if ids[sp.Id] {
			return fmt.Errorf("two species carry the id %d", sp.Id)
		}
		ids[sp.Id] = true
		for _, o := range sp.Organisms {
			if other, dup := listed[o]; dup {
				return fmt.Errorf("an organism is listed by species %d and by species %d", other.Id, sp.Id)
			}
			listed[o] = sp
			total++
		}
	}
	if total != popSize {
		return fmt.Errorf("the species list %d organisms in total, population size is %d", total, popSize)
	}
	gids := map[int]bool{}
	for i, o := range pop.Organisms {
		sp, ok := listed[o]
		if !ok {
			return fmt.Errorf("organism %d is listed by no species", i)
		}
		if o.Species != sp {
			sid := -1
			if o.Species != nil {
				sid = o.Species.Id
			}
			return fmt.Errorf("organism %d is listed by species %d but names species %d as its own", i, sp.Id, sid)
		}
		if gids[o.Genotype.Id] {
			return fmt.Errorf("two organisms carry the genome id %d", o.Genotype.Id)
		}
		gids[o.Genotype.Id] = true
	}
	return nil
}

// check verifies the C02 clauses after a turnover against the snapshot taken before it. firstTurnover tells whether
// the surviving species were created when the population was constructed (they are not aged by that turnover).
func (t *c02Tracker) check(pop *genetics.Population, popSize int, firstTurnover bool, rec *Rec) error {
	if err := checkPartition(pop, popSize); err != nil {
		return err
	}
	for i, o := range pop.Organisms {
		if t.preOrgs[o] {
			return fmt.Errorf("organism %d belonged to the previous generation", i)
		}
	}
	founded, survived := 0, 0
	for _, sp := range pop.Species {
		if oldAge, old := t.preAges[sp]; old {
			survived++
			if sp.Id != t.preIds[sp] {
				return fmt.Errorf("species %d changed its id to %d", t.preIds[sp], sp.Id)
			}
			want := oldAge + 1
			if firstTurnover {
				want = oldAge
			}
			if sp.Age != want {
				return fmt.Errorf("surviving species %d has age %d after the turnover, it had %d before (first turnover of the population: %v)", sp.Id, sp.Age, oldAge, firstTurnover)
			}
		} else {
			founded++
			if t.everSeen[sp.Id] {
				return fmt.Errorf("new species reuses the id %d", sp.Id)
			}
			if sp.Age != 1 {
				return fmt.Errorf("species %d founded during the turnover has age %d", sp.Id, sp.Age)
			}
		}
	}
	for _, sp := range pop.Species {
		t.everSeen[sp.Id] = true
	}
	if founded > 0 {
		rec.Class("turnover founding new species")
	}
	if survived < len(t.preAges) {
		rec.Class("turnover with species extinction")
	}
	return nil
}

// ledger is M3: what every innovation number and node id ever seen in the history denotes.
type ledger struct {
	genes    map[int64][3]int // innovation -> (in, out, recurrent)
	roles    map[int]int      // node id -> role
	maxInnov int64
	maxNode  int
}

func newLedger() *ledger { return &ledger{genes: map[int64][3]int{}, roles: map[int]int{}} }

// update records all organisms; strictNew (a turnover, as opposed to the construction of the population) requires that
// everything unknown so far is larger than the maxima before and that equal new links carry equal numbers.
func (l *ledger) update(pop *genetics.Population, strictNew bool, rec *Rec) error {
	prevInnov, prevNode := l.maxInnov, l.maxNode
	newGenes := map[int64]int{}
	newLinks := map[[3]int]int64{}
	var twoNumbers *sameLinkTwoNumbers
	for i, o := range pop.Organisms {
		for _, n := range o.Genotype.Nodes {
			role, known := l.roles[n.Id]
			if known && role != int(n.NeuronType) {
				return fmt.Errorf("node id %d denotes a node of role %d in organism %d and of role %d elsewhere in the history", n.Id, n.NeuronType, i, role)
			}
			if !known {
				if strictNew && n.Id <= prevNode {
					return fmt.Errorf("node id %d issued in this generation is not larger than the largest id %d the population held before", n.Id, prevNode)
				}
				l.roles[n.Id] = int(n.NeuronType)
				if n.Id > l.maxNode {
					l.maxNode = n.Id
				}
			}
		}
		for _, cg := range o.Genotype.ControlGenes {
			// a module's control node holds a node id (role "control") and the module an innovation number
			id := cg.ControlNode.Id
			if role, known := l.roles[id]; known && role != roleControl {
				return fmt.Errorf("node id %d denotes the control node of a module in organism %d and a node of role %d elsewhere in the history", id, i, role)
			} else if !known {
				if strictNew && id <= prevNode {
					return fmt.Errorf("control node id %d issued in this generation is not larger than the largest id %d the population held before", id, prevNode)
				}
				l.roles[id] = roleControl
				if id > l.maxNode {
					l.maxNode = id
				}
			}
			k := [3]int{id, -1, 2}
			if old, known := l.genes[cg.InnovationNum]; known && old != k {
				return fmt.Errorf("innovation %d denotes the module with control node %d in organism %d but %d->%d rec=%d elsewhere in the history", cg.InnovationNum, id, i, old[0], old[1], old[2])
			} else if !known {
				l.genes[cg.InnovationNum] = k
				if cg.InnovationNum > l.maxInnov {
					l.maxInnov = cg.InnovationNum
				}
			}
		}
		for _, g := range o.Genotype.Genes {
			k := [3]int{g.Link.InNode.Id, g.Link.OutNode.Id, b2i(g.Link.IsRecurrent)}
			old, known := l.genes[g.InnovationNum]
			if known && old != k {
				return fmt.Errorf("innovation %d joins %d->%d rec=%d in organism %d but %d->%d rec=%d elsewhere in the history",
					g.InnovationNum, k[0], k[1], k[2], i, old[0], old[1], old[2])
			}
			if !known {
				if strictNew && g.InnovationNum <= prevInnov {
					return fmt.Errorf("innovation %d issued in this generation is not larger than the largest number %d the population held before", g.InnovationNum, prevInnov)
				}
				l.genes[g.InnovationNum] = k
				if g.InnovationNum > l.maxInnov {
					l.maxInnov = g.InnovationNum
				}
			}
			if strictNew && g.InnovationNum > prevInnov {
				newGenes[g.InnovationNum]++
				if other, dup := newLinks[k]; dup && other != g.InnovationNum && twoNumbers == nil {
					// the same new link under two numbers within one generation: reported after everything is
					// recorded (callers checking the parallel executor ignore exactly this finding)
					twoNumbers = &sameLinkTwoNumbers{k: k, a: other, b: g.InnovationNum}
				}
				newLinks[k] = g.InnovationNum
			}
		}
	}
	for _, n := range newGenes {
		if n >= 2 {
			rec.Class("innovation shared by several organisms of one generation")
			break
		}
	}
	if twoNumbers != nil {
		return twoNumbers
	}
	return nil
}

const roleControl = 99

type sameLinkTwoNumbers struct {
	k    [3]int
	a, b int64
}

func (e *sameLinkTwoNumbers) Error() string {
	return fmt.Sprintf("the new link %d->%d rec=%d received two innovation numbers (%d and %d) in one generation", e.k[0], e.k[1], e.k[2], e.a, e.b)
}
