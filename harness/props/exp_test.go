package props

import (
	"math"
	"time"

	"github.com/yaricom/goNEAT/v4/experiment"
	"github.com/yaricom/goNEAT/v4/neat/genetics"
	"pgregory.net/rapid"
)

/* G-series and G-experiment: result series and synthetic experiment records */

// genSeries: finite series of any order and length.
func genSeries(maxLen int) *rapid.Generator[[]float64] {
	return rapid.Custom(func(t *rapid.T) []float64 {
		n := rapid.OneOf(rapid.IntRange(0, 12), rapid.IntRange(0, maxLen)).Draw(t, "len")
		kind := rapid.IntRange(0, 6).Draw(t, "value kind")
		offset := rapid.SampledFrom([]float64{1e6, 1e9, 1e12, 1e15, -1e9, 16777216}).Draw(t, "offset")
		x := make([]float64, n)
		for i := range x {
			switch kind {
			case 5: // a large common offset and a small spread (all values exactly representable)
				x[i] = offset + float64(rapid.IntRange(-8, 8).Draw(t, "v"))
			case 6: // both ends of the float64 range (order statistics are exact there; sums may overflow and are then not compared)
				// (at most 400 values of magnitude 1e300: the sum stays below the largest float64 - a series whose float64 sum
				// overflows has no representable textbook sum, and its mean and variance are derived from that sum; DESIGN 5.2)
				x[i] = rapid.SampledFrom([]float64{1e300, -1e300, 9.9e299, -3e299, 5e-324, -5e-324, 2.2250738585072014e-308, 1e-310, 0, 1}).Draw(t, "v")
			case 0: // small integers, many duplicates
				x[i] = float64(rapid.IntRange(-5, 5).Draw(t, "v"))
			case 1:
				x[i] = rapid.Float64Range(-100, 100).Draw(t, "v")
			case 2: // wide range
				x[i] = genWeight().Draw(t, "v")
				if x[i] > 1e150 || x[i] < -1e150 {
					x[i] = 1e150
				}
			case 3: // fitness-like
				x[i] = rapid.Float64Range(0, 16).Draw(t, "v")
			default:
				x[i] = rapid.SampledFrom([]float64{0, 1, 1, 2, 3.5, -1, 1e150, -1e150, 1e-300}).Draw(t, "v")
			}
		}
		switch rapid.IntRange(0, 3).Draw(t, "order") {
		case 0:
			sortFloats(x)
		case 1:
			sortFloats(x)
			for i, j := 0, len(x)-1; i < j; i, j = i+1, j-1 {
				x[i], x[j] = x[j], x[i]
			}
		}
		return x
	})
}

func sortFloats(x []float64) {
	for i := 1; i < len(x); i++ {
		for j := i; j > 0 && x[j] < x[j-1]; j-- {
			x[j], x[j-1] = x[j-1], x[j]
		}
	}
}

type OrgSpec struct {
	Genome            GenomeSpec `json:"genome"`
	Fitness           float64    `json:"fitness"`
	Error             float64    `json:"error"`
	IsWinner          bool       `json:"winner"`
	Generation        int        `json:"generation"`
	ExpectedOffspring float64    `json:"expected_offspring"`
	SpeciesAge        int        `json:"species_age"` // 0 = the organism has no species reference
}

func (o OrgSpec) Build() *genetics.Organism {
	org, _ := genetics.NewOrganism(o.Fitness, o.Genome.Build(), o.Generation)
	org.Error = o.Error
	org.IsWinner = o.IsWinner
	org.ExpectedOffspring = o.ExpectedOffspring
	if o.SpeciesAge > 0 {
		org.Species = genetics.NewSpecies(1)
		org.Species.Age = o.SpeciesAge
	}
	return org
}

type GenSpec struct {
	Id          int       `json:"id"`
	ExecutedNs  int64     `json:"executed_ns"`
	DurationNs  int64     `json:"duration_ns"`
	Solved      bool      `json:"solved"`
	Champion    OrgSpec   `json:"champion"`
	Fitness     []float64 `json:"fitness"`
	Age         []float64 `json:"age"`
	Complexity  []float64 `json:"complexity"`
	Diversity   int       `json:"diversity"`
	WinnerEvals int       `json:"winner_evals"`
	WinnerNodes int       `json:"winner_nodes"`
	WinnerGenes int       `json:"winner_genes"`
	TrialId     int       `json:"trial_id"`
}

type TrialSpec struct {
	Id          int       `json:"id"`
	DurationNs  int64     `json:"duration_ns"`
	Generations []GenSpec `json:"generations"`
}

type ExpSpec struct {
	Id              int         `json:"id"`
	Name            string      `json:"name"`
	MaxFitnessScore float64     `json:"max_fitness_score"`
	Trials          []TrialSpec `json:"trials"`
}

func (g GenSpec) Build() experiment.Generation {
	return experiment.Generation{
		Id: g.Id, Executed: time.Unix(0, g.ExecutedNs), Duration: time.Duration(g.DurationNs), Solved: g.Solved, Champion: g.Champion.Build(),
		Fitness: append(experiment.Floats(nil), g.Fitness...), Age: append(experiment.Floats(nil), g.Age...),
		Complexity: append(experiment.Floats(nil), g.Complexity...), Diversity: g.Diversity, WinnerEvals: g.WinnerEvals,
		WinnerNodes: g.WinnerNodes, WinnerGenes: g.WinnerGenes, TrialId: g.TrialId,
	}
}

func (s ExpSpec) Build() *experiment.Experiment {
	e := &experiment.Experiment{Id: s.Id, Name: s.Name, MaxFitnessScore: s.MaxFitnessScore, Trials: make(experiment.Trials, 0, len(s.Trials))}
	for _, ts := range s.Trials {
		tr := experiment.Trial{Id: ts.Id, Duration: time.Duration(ts.DurationNs)}
		for _, gs := range ts.Generations {
			tr.Generations = append(tr.Generations, gs.Build())
		}
		e.Trials = append(e.Trials, tr)
	}
	return e
}

func genFitness() *rapid.Generator[float64] {
	return rapid.OneOf(rapid.Float64Range(0, 16), rapid.SampledFrom([]float64{0, 1, 4, 16, 15.5, -2.5, 1e200, 1e-200, 0.1}), rapid.Float64Range(-10, 1000))
}

func genOrgSpec() *rapid.Generator[OrgSpec] { return genOrgSpecM(false) }

// genOrgSpecM: with modular set, one organism in five carries a modular genome (records that are only held in memory: the
// plain encoding of organisms has no syntax for modules)
func genOrgSpecM(modular bool) *rapid.Generator[OrgSpec] {
	plain := genGenomeSpec(GenomeCfg{MinGenes: 1, MaxHidden: 4, MaxGenes: 10, TraitBase1: true})
	mod := genGenomeSpec(GenomeCfg{MinGenes: 1, MaxHidden: 4, MaxGenes: 10, TraitBase1: true, Modules: true})
	return rapid.Custom(func(t *rapid.T) OrgSpec {
		gg := plain
		if modular && rapid.IntRange(0, 4).Draw(t, "modular champion") == 0 {
			gg = mod
		}
		return OrgSpec{Genome: gg.Draw(t, "genome"), Fitness: genFitness().Draw(t, "fitness"), Error: rapid.Float64Range(0, 4).Draw(t, "error"),
			IsWinner: rapid.Bool().Draw(t, "winner"), Generation: rapid.OneOf(rapid.IntRange(0, 100), rapid.IntRange(0, 100), rapid.SampledFrom([]int{255, 256, 65535, 65536, math.MaxInt32, 1 << 40})).Draw(t, "generation"),
			ExpectedOffspring: rapid.Float64Range(0, 10).Draw(t, "expected offspring"), SpeciesAge: rapid.IntRange(0, 30).Draw(t, "species age")}
	})
}

func genExpSpec() *rapid.Generator[ExpSpec] { return genExpSpecM(false) }

func genExpSpecM(modular bool) *rapid.Generator[ExpSpec] {
	og := genOrgSpecM(modular)
	return rapid.Custom(func(t *rapid.T) ExpSpec {
		e := ExpSpec{Id: rapid.OneOf(rapid.IntRange(0, 100), rapid.SampledFrom([]int{65536, math.MaxInt32, 1 << 40})).Draw(t, "id"), Name: rapid.StringMatching(`[a-zA-Z0-9 _-]{0,12}`).Draw(t, "name"),
			MaxFitnessScore: rapid.SampledFrom([]float64{0, 1, 16}).Draw(t, "max fitness")}
		base := int64(1_700_000_000_000_000_000) + int64(rapid.IntRange(0, 1_000_000).Draw(t, "time base"))*1_000_000
		nTrials := rapid.IntRange(0, pick(5, 6)).Draw(t, "trials")
		// trial ids are labels: a record merged from several runs, or built by hand, repeats them
		sharedTrialIds := rapid.IntRange(0, 3).Draw(t, "shared trial ids") == 0
		solvedBias := rapid.IntRange(0, 3).Draw(t, "solved bias")
		for ti := 0; ti < nTrials; ti++ {
			trialId := ti
			if sharedTrialIds {
				trialId = ti % 2
			}
			tr := TrialSpec{Id: trialId, DurationNs: int64(rapid.IntRange(0, 1_000_000_000).Draw(t, "trial duration"))}
			nGen := rapid.IntRange(0, pick(8, 12)).Draw(t, "generations")
			arbitraryIds := rapid.IntRange(0, 3).Draw(t, "arbitrary generation ids") == 0
			for gi := 0; gi < nGen; gi++ {
				id := gi
				if arbitraryIds { // a record assembled by hand or merged from several runs: gaps, repeats, any order
					id = rapid.IntRange(0, 30).Draw(t, "generation id")
				}
				g := GenSpec{Id: id, TrialId: ti, ExecutedNs: base, DurationNs: int64(rapid.IntRange(0, 50_000_000).Draw(t, "duration")),
					Champion: og.Draw(t, "champion")}
				base += int64(rapid.IntRange(0, 3_000_000).Draw(t, "time step"))
				if solvedBias > 0 && rapid.IntRange(0, 5).Draw(t, "solved") < solvedBias {
					g.Solved = true
					g.WinnerEvals = rapid.OneOf(rapid.IntRange(0, 5000), rapid.SampledFrom([]int{65536, 1 << 31, 1 << 40})).Draw(t, "evals")
					g.WinnerNodes = len(g.Champion.Genome.Nodes)
					g.WinnerGenes = len(g.Champion.Genome.Genes)
					if rapid.IntRange(0, 5).Draw(t, "evaluator's own winner numbers") == 0 {
						// the evaluator fills these fields itself: any non-negative numbers, zero included
						g.WinnerNodes = rapid.IntRange(0, 3).Draw(t, "winner nodes")
						g.WinnerGenes = rapid.IntRange(0, 3).Draw(t, "winner genes")
					}
				}
				if !g.Solved && rapid.IntRange(0, 7).Draw(t, "winner numbers on an unsolved generation") == 0 {
					// e.g. a champion that solved the task but failed a later generalisation test: the evaluator recorded
					// its numbers and then withdrew the solved flag
					g.WinnerEvals = rapid.IntRange(1, 5000).Draw(t, "evals (unsolved)")
					g.WinnerNodes = rapid.IntRange(1, 9).Draw(t, "winner nodes (unsolved)")
					g.WinnerGenes = rapid.IntRange(1, 9).Draw(t, "winner genes (unsolved)")
				}
				g.Diversity = rapid.IntRange(0, 6).Draw(t, "diversity")
				for s := 0; s < g.Diversity; s++ {
					g.Fitness = append(g.Fitness, genFitness().Draw(t, "sp fitness"))
					g.Age = append(g.Age, float64(rapid.IntRange(1, 40).Draw(t, "sp age")))
					g.Complexity = append(g.Complexity, float64(rapid.IntRange(2, 60).Draw(t, "sp complexity")))
				}
				tr.Generations = append(tr.Generations, g)
			}
			e.Trials = append(e.Trials, tr)
		}
		return e
	})
}

// modelComplexity: the C11 model of the phenotype's complexity: nodes + enabled genes, and for every enabled module its control
// node and one link per listed input and output.
func modelComplexity(g GenomeSpec) int {
	c := len(g.Nodes)
	for _, gn := range g.Genes {
		if gn.En {
			c++
		}
	}
	for _, m := range g.Modules {
		if m.En {
			c += 1 + len(m.Ins) + len(m.Outs)
		}
	}
	return c
}

func hasModularChampion(s ExpSpec) bool {
	for _, t := range s.Trials {
		for _, g := range t.Generations {
			if len(g.Champion.Genome.Modules) > 0 {
				return true
			}
		}
	}
	return false
}
