package props

import "testing"

/* Native fuzz targets (thorough tier). Each one drives an existing generator / check pair, see fuzzProp. */

func FuzzC04(f *testing.F)        { fuzzProp(f, "C04", "family", GenC04(), CheckC04) }
func FuzzC05(f *testing.F)        { fuzzProp(f, "C05", "history", genHistory(60), CheckC05) }
func FuzzC01History(f *testing.F) { fuzzProp(f, "C01", "history", genHistory(60), CheckC01History) }
func FuzzC03History(f *testing.F) { fuzzProp(f, "C03", "history", genHistory(60), CheckC03History) }
func FuzzC06Dup(f *testing.F)     { fuzzProp(f, "C06", "dup", GenC06Dup(), CheckC06Dup) }
func FuzzC07(f *testing.F)        { fuzzProp(f, "C07", "lists", GenC07(), CheckC07) }
func FuzzC08Direct(f *testing.F)  { fuzzProp(f, "C08", "direct", GenC08Direct(), CheckC08Direct) }
func FuzzC11(f *testing.F)        { fuzzProp(f, "C11", "genesis", GenC11(), CheckC11) }
func FuzzC12(f *testing.F)        { fuzzProp(f, "C12", "dag", GenC12(), CheckC12) }
func FuzzC13(f *testing.F)        { fuzzProp(f, "C13", "flush", GenC13(), CheckC13) }
func FuzzC14(f *testing.F)        { fuzzProp(f, "C14", "depth", GenC14(), CheckC14) }
func FuzzC15Genome(f *testing.F)  { fuzzProp(f, "C15", "genome", GenC15Genome(), CheckC15Genome) }
func FuzzC18Scalar(f *testing.F)  { fuzzProp(f, "C18", "scalar", GenC18Scalar(), CheckC18Scalar) }
func FuzzC18Module(f *testing.F)  { fuzzProp(f, "C18", "module", GenC18Module(), CheckC18Module) }
func FuzzC19Series(f *testing.F) {
	fuzzProp(f, "C19", "series", genC19Series(200), CheckC19Series)
}
func FuzzC19Exp(f *testing.F) { fuzzProp(f, "C19", "aggregates", genC19ExpM(true), CheckC19Exp) }
func FuzzC16Interleaved(f *testing.F) {
	fuzzProp(f, "C16", "interleaved", GenC16Interleaved(), CheckC16Interleaved)
}
func FuzzC20(f *testing.F)    { fuzzProp(f, "C20", "protocol", GenC20(), CheckC20) }
