package props

import (
	"fmt"
	"math"
	"sort"

	"github.com/yaricom/goNEAT/v4/neat"
	"pgregory.net/rapid"
)

/* ------------------------------------------------------------------------------------------------
   Shared generators. Every random choice goes through rapid so that cases shrink and replay.
   ------------------------------------------------------------------------------------------------ */

// genWeight: arbitrary finite float64 weights (small, large, integral, subnormal, many-digit).
func genWeight() *rapid.Generator[float64] {
	return rapid.OneOf(
		rapid.Float64Range(-3, 3),
		rapid.Float64Range(-3, 3),
		rapid.Float64Range(-100, 100),
		rapid.SampledFrom([]float64{0, 1, -1, 2, 0.5, -0.25, 1e30, -1e30, 1e-30, 5e-324, 0.1, 1.0 / 3, -2.0 / 3, 12345.678901234567, 1e200, -1e-200}),
		rapid.Float64Range(-1e6, 1e6),
	)
}

// genModestWeight: weights as evolution produces them.
func genModestWeight() *rapid.Generator[float64] {
	return rapid.OneOf(rapid.Float64Range(-3, 3), rapid.Float64Range(-10, 10), rapid.SampledFrom([]float64{0, 1, -1, 0.5}))
}

func genTraitParams(t *rapid.T) []float64 {
	p := make([]float64, neat.NumTraitParams)
	kind := rapid.IntRange(0, 2).Draw(t, "trait kind")
	if rapid.IntRange(0, 11).Draw(t, "extreme trait parameters") == 5 {
		kind = 3
	}
	for i := range p {
		switch kind {
		case 3: // both ends of the float64 range
			p[i] = rapid.SampledFrom([]float64{math.MaxFloat64, -math.MaxFloat64, 1.2e308, -9.1e307, 8.9e307, 5e-324, -5e-324, 2.2250738585072014e-308,
				math.Copysign(0, -1), 0, 1, 1e300}).Draw(t, "tp")
		case 0:
			p[i] = rapid.Float64Range(0, 1).Draw(t, "tp")
		case 1:
			p[i] = rapid.SampledFrom([]float64{0, 0.1, 0.5, 1, 2}).Draw(t, "tp")
		default:
			p[i] = genWeight().Draw(t, "tp")
		}
	}
	return p
}

var scalarActs = []int{1, 2, 3, 4, 5, 6, 7, 8, 9, 10, 11, 12, 13, 14, 15, 16, 17, 18, 19, 20}

type GenomeCfg struct {
	Modules      bool // allow 0..2 modules
	MinGenes     int
	MaxHidden    int
	MaxGenes     int
	NoNilTraits  bool
	AllEnabled   bool
	NoRecurrent  bool
	ModestWeight bool
	TraitBase1   bool // trait ids start at 1
	SingleOutMod bool // modules have exactly one output (required to activate multiply/max/min modules)
	SensorsFirst bool // never place a sensor behind a neuron in the node list
	EnabledOf10  int  // how many genes out of ten are enabled on average (0 = the default of seven)
	ShuffleMods  bool // list the modules in a generated order (control-node ids and innovation numbers not ascending)
	Big          bool // one genome in twenty-five is large (up to 40 hidden nodes and 300 genes)
	LargeNumbers bool // one genome in ten carries node ids up to 2^31-1 and innovation numbers up to 2^63-2
	LargeRoom    bool // as LargeNumbers, but the numbers leave room for a long history (node ids up to 2^30, innovation numbers up to 2^62)
	ModLinkW     bool // every second module is assembled in code: its links carry generated weights and recurrence flags
	ModLinkTr    bool // links of a module assembled in code may carry one of the genome's traits
}

// genGenomeSpec is G-direct: a hand-built well-formed genome.
// permuteNodeIds renames the ordinary nodes of a genome by a generated permutation of their ids (control nodes keep theirs, above
// all ordinary ids): any order of roles in the node list, which stays sorted by id.
func permuteNodeIds(t *rapid.T, s GenomeSpec) GenomeSpec {
	ids := nodeIds(s.Nodes)
	perm := rapid.Permutation(ids).Draw(t, "node id permutation")
	m := map[int]int{}
	for i, id := range ids {
		m[id] = perm[i]
	}
	for i := range s.Nodes {
		s.Nodes[i].Id = m[s.Nodes[i].Id]
	}
	sort.Slice(s.Nodes, func(a, b int) bool { return s.Nodes[a].Id < s.Nodes[b].Id })
	for i := range s.Genes {
		s.Genes[i].In, s.Genes[i].Out = m[s.Genes[i].In], m[s.Genes[i].Out]
	}
	for i := range s.Modules {
		for j := range s.Modules[i].Ins {
			s.Modules[i].Ins[j] = m[s.Modules[i].Ins[j]]
		}
		for j := range s.Modules[i].Outs {
			s.Modules[i].Outs[j] = m[s.Modules[i].Outs[j]]
		}
	}
	return s
}

// enlargeNumbers shifts every node id above a generated pivot, and every innovation number above another pivot, by a large
// offset (order preserved): the numbers of a long run - node ids are issued from a population-wide 32-bit counter,
// innovation numbers from a 64-bit one.
func enlargeNumbers(t *rapid.T, s GenomeSpec, room bool) GenomeSpec {
	maxId := 0
	for _, n := range s.Nodes {
		if n.Id > maxId {
			maxId = n.Id
		}
	}
	for _, m := range s.Modules {
		if m.Id > maxId {
			maxId = m.Id
		}
	}
	offs := []int{0, 250, 32700, 65500, 1 << 24, math.MaxInt32 - maxId}
	if room {
		offs = []int{250, 32700, 65500, 1 << 24, 1 << 30}
	}
	off := rapid.SampledFrom(offs).Draw(t, "node id offset")
	pivot := rapid.IntRange(0, maxId).Draw(t, "node id pivot")
	mv := func(id int) int {
		if id > pivot {
			return id + off
		}
		return id
	}
	for i := range s.Nodes {
		s.Nodes[i].Id = mv(s.Nodes[i].Id)
	}
	for i := range s.Genes {
		s.Genes[i].In, s.Genes[i].Out = mv(s.Genes[i].In), mv(s.Genes[i].Out)
	}
	for i := range s.Modules {
		s.Modules[i].Id = mv(s.Modules[i].Id)
		for j := range s.Modules[i].Ins {
			s.Modules[i].Ins[j] = mv(s.Modules[i].Ins[j])
		}
		for j := range s.Modules[i].Outs {
			s.Modules[i].Outs[j] = mv(s.Modules[i].Outs[j])
		}
	}
	var maxInn int64
	for _, g := range s.Genes {
		if g.Innov > maxInn {
			maxInn = g.Innov
		}
	}
	for _, m := range s.Modules {
		if m.Innov > maxInn {
			maxInn = m.Innov
		}
	}
	// the genome's own id and its trait ids are numbers in the files as well
	s.Id = rapid.SampledFrom([]int{s.Id, s.Id, 65536 + s.Id, math.MaxInt32, 1 << 40}).Draw(t, "large genome id")
	if toff := rapid.SampledFrom([]int{0, 0, 300, 70000}).Draw(t, "trait id offset"); toff > 0 {
		s.Traits = append([]TraitSpec(nil), s.Traits...)
		for i := range s.Traits {
			s.Traits[i].Id += toff
		}
		for i := range s.Nodes {
			if s.Nodes[i].Trait != 0 {
				s.Nodes[i].Trait += toff
			}
		}
		for i := range s.Genes {
			if s.Genes[i].Trait != 0 {
				s.Genes[i].Trait += toff
			}
		}
		for i := range s.Modules {
			if s.Modules[i].Trait != 0 {
				s.Modules[i].Trait += toff
			}
			if len(s.Modules[i].LinkTr) > 0 {
				lt := append([]int(nil), s.Modules[i].LinkTr...)
				for k := range lt {
					if lt[k] != 0 {
						lt[k] += toff
					}
				}
				s.Modules[i].LinkTr = lt
			}
		}
	}
	ioffs := []int64{0, 70000, 1 << 31, 1 << 40, math.MaxInt64 - maxInn - 1}
	if room {
		ioffs = []int64{70000, 1 << 31, 1 << 40, 1 << 53, 1 << 62}
	}
	ioff := rapid.SampledFrom(ioffs).Draw(t, "innovation offset")
	ipivot := int64(rapid.IntRange(0, int(maxInn)).Draw(t, "innovation pivot"))
	for i := range s.Genes {
		if s.Genes[i].Innov > ipivot {
			s.Genes[i].Innov += ioff
		}
	}
	for i := range s.Modules {
		if s.Modules[i].Innov > ipivot {
			s.Modules[i].Innov += ioff
		}
	}
	return s
}

// enlargeFamilyInnovations shifts every innovation number above a generated pivot by one large offset in all members of a
// family (order and agreement between the members preserved): the numbers of a very long run, up to 2^63-2.
func enlargeFamilyInnovations(t *rapid.T, fam []GenomeSpec) []GenomeSpec {
	var maxInn int64
	for _, s := range fam {
		if _, m := maxIds(s); m > maxInn {
			maxInn = m
		}
	}
	off := rapid.SampledFrom([]int64{1 << 31, 1 << 40, math.MaxInt64/2 - maxInn, math.MaxInt64 - maxInn - 1}).Draw(t, "family innovation offset")
	pivot := int64(rapid.IntRange(0, int(maxInn)).Draw(t, "family innovation pivot"))
	out := make([]GenomeSpec, len(fam))
	for i, s := range fam {
		s.Genes = append([]GeneSpec(nil), s.Genes...)
		for k := range s.Genes {
			if s.Genes[k].Innov > pivot {
				s.Genes[k].Innov += off
			}
		}
		out[i] = s
	}
	return out
}

// addNodeBehindModules appends a hidden node whose id is larger than the control nodes' ids, wired sensor -> node -> output,
// as an add-node mutation of a modular genome creates it (the population's id counter starts behind the control nodes).
func addNodeBehindModules(g GenomeSpec) GenomeSpec {
	maxNode, maxInnov := maxIds(g)
	var sensor, out int
	for _, n := range g.Nodes {
		if isSensorRole(n.Role) && sensor == 0 {
			sensor = n.Id
		}
		if n.Role == roleOutput {
			out = n.Id
		}
	}
	if sensor == 0 || out == 0 || len(g.Genes) == 0 || maxInnov >= math.MaxInt64-4 || maxNode >= math.MaxInt32-2 {
		return g
	}
	g.Nodes = append(append([]NodeSpec(nil), g.Nodes...), NodeSpec{Id: maxNode + 1, Role: roleHidden, Act: 4, Trait: g.Nodes[0].Trait})
	g.Genes = append(append([]GeneSpec(nil), g.Genes...),
		GeneSpec{In: sensor, Out: maxNode + 1, W: 0.5, Innov: maxInnov + 1, Mut: 0.5, En: true, Trait: g.Genes[0].Trait},
		GeneSpec{In: maxNode + 1, Out: out, W: -0.25, Innov: maxInnov + 2, Mut: -0.25, En: true, Trait: g.Genes[0].Trait})
	return g
}

func genGenomeSpec(cfg GenomeCfg) *rapid.Generator[GenomeSpec] {
	return rapid.Custom(func(t *rapid.T) GenomeSpec {
		s := drawGenomeSpec(t, cfg)
		if !cfg.SensorsFirst && rapid.IntRange(0, 7).Draw(t, "permute node ids") == 0 {
			s = permuteNodeIds(t, s)
		}
		if (cfg.LargeNumbers || cfg.LargeRoom) && rapid.IntRange(0, 9).Draw(t, "large numbers") == 0 {
			s = enlargeNumbers(t, s, cfg.LargeRoom)
		}
		if err := SpecWellFormed(s); err != nil {
			panic(fmt.Sprintf("generator bug: G-direct produced a malformed genome: %v\n%s", err, jsonStr(s)))
		}
		return s
	})
}

func drawGenomeSpec(t *rapid.T, cfg GenomeCfg) GenomeSpec {
	s := GenomeSpec{Id: rapid.IntRange(0, 50).Draw(t, "genome id")}
	// traits: consecutive ids
	nTraits := rapid.IntRange(1, 4).Draw(t, "traits")
	base := 1
	if !cfg.TraitBase1 {
		base = rapid.SampledFrom([]int{1, 1, 1, 2, 5}).Draw(t, "trait base")
	}
	for i := 0; i < nTraits; i++ {
		s.Traits = append(s.Traits, TraitSpec{Id: base + i, Params: genTraitParams(t)})
	}
	drawTrait := func(label string) int {
		if !cfg.NoNilTraits && rapid.IntRange(0, 3).Draw(t, label+" nil") == 0 {
			return 0
		}
		return base + rapid.IntRange(0, nTraits-1).Draw(t, label)
	}
	// nodes: sensors carry the lowest ids
	nIn := rapid.IntRange(1, 5).Draw(t, "inputs")
	nBias := rapid.IntRange(0, 2).Draw(t, "bias")
	nOut := rapid.IntRange(1, 3).Draw(t, "outputs")
	maxHidden := cfg.MaxHidden
	if maxHidden == 0 {
		maxHidden = 8
	}
	big := cfg.Big && rapid.IntRange(0, 49).Draw(t, "big genome") >= 48
	if big {
		maxHidden = 40
	}
	nHid := rapid.IntRange(0, maxHidden).Draw(t, "hidden")
	id := rapid.IntRange(1, 3).Draw(t, "first id")
	roles := make([]int, 0, nIn+nBias)
	for i := 0; i < nIn; i++ {
		roles = append(roles, roleInput)
	}
	// bias nodes at generated positions among the sensors
	for i := 0; i < nBias; i++ {
		pos := rapid.IntRange(0, len(roles)).Draw(t, "bias pos")
		roles = append(roles[:pos], append([]int{roleBias}, roles[pos:]...)...)
	}
	for _, r := range roles {
		act := 17
		if rapid.IntRange(0, 4).Draw(t, "sensor act") == 0 {
			act = 4
		}
		s.Nodes = append(s.Nodes, NodeSpec{Id: id, Role: r, Act: act, Trait: drawTrait("node trait")})
		id += rapid.IntRange(1, 2).Draw(t, "id gap")
	}
	neuronRoles := make([]int, 0, nOut+nHid)
	for i := 0; i < nOut; i++ {
		neuronRoles = append(neuronRoles, roleOutput)
	}
	for i := 0; i < nHid; i++ {
		pos := rapid.IntRange(0, len(neuronRoles)).Draw(t, "hidden pos")
		neuronRoles = append(neuronRoles[:pos], append([]int{roleHidden}, neuronRoles[pos:]...)...)
	}
	if !cfg.SensorsFirst && rapid.IntRange(0, 5).Draw(t, "late sensor") == 0 {
		// a sensor whose id lies above a neuron's (hand-built genomes may number their nodes like that: add-link has an
		// explicit guard for sensors that do not lead the node list)
		pos := rapid.IntRange(1, len(neuronRoles)).Draw(t, "late sensor pos")
		late := rapid.SampledFrom([]int{roleInput, roleInput, roleBias}).Draw(t, "late sensor role")
		neuronRoles = append(neuronRoles[:pos], append([]int{late}, neuronRoles[pos:]...)...)
	}
	for _, r := range neuronRoles {
		act := rapid.SampledFrom(scalarActs).Draw(t, "act")
		if isSensorRole(r) {
			act = 17
		}
		s.Nodes = append(s.Nodes, NodeSpec{Id: id, Role: r, Act: act, Trait: drawTrait("node trait")})
		id += rapid.IntRange(1, 3).Draw(t, "id gap")
	}
	// genes: random set of (in, out, recurrent) triples, out never a sensor
	var targets []int
	for _, n := range s.Nodes {
		if !isSensorRole(n.Role) {
			targets = append(targets, n.Id)
		}
	}
	maxGenes := cfg.MaxGenes
	if maxGenes == 0 {
		maxGenes = 20
	}
	minGenes := cfg.MinGenes
	if big {
		maxGenes = 300
	}
	nGenes := rapid.IntRange(minGenes, maxGenes).Draw(t, "genes")
	type key struct {
		in, out int
		rec     bool
	}
	seen := map[key]bool{}
	innov := int64(rapid.IntRange(0, 3).Draw(t, "innov base"))
	wgen := genWeight()
	if cfg.ModestWeight {
		wgen = genModestWeight()
	}
	for tries := 0; len(s.Genes) < nGenes && tries < nGenes*4+8; tries++ {
		k := key{in: s.Nodes[rapid.IntRange(0, len(s.Nodes)-1).Draw(t, "gene in")].Id,
			out: targets[rapid.IntRange(0, len(targets)-1).Draw(t, "gene out")]}
		if !cfg.NoRecurrent {
			k.rec = rapid.IntRange(0, 4).Draw(t, "rec") == 0
		}
		if seen[k] {
			continue
		}
		seen[k] = true
		innov += int64(rapid.IntRange(1, 3).Draw(t, "innov gap"))
		w := wgen.Draw(t, "w")
		mut := w
		if rapid.IntRange(0, 2).Draw(t, "mut differs") == 0 {
			mut = wgen.Draw(t, "mut")
		}
		enabledOf10 := cfg.EnabledOf10
		if enabledOf10 == 0 {
			enabledOf10 = 7
		}
		en := cfg.AllEnabled || rapid.IntRange(0, 9).Draw(t, "enabled") < enabledOf10
		s.Genes = append(s.Genes, GeneSpec{In: k.in, Out: k.out, W: w, Rec: k.rec, Innov: innov, Mut: mut, En: en, Trait: drawTrait("gene trait")})
	}
	for len(s.Genes) < minGenes { // dense small genome: fill deterministically
		filled := false
		for _, a := range s.Nodes {
			for _, b := range targets {
				k := key{a.Id, b, false}
				if !seen[k] && len(s.Genes) < minGenes {
					seen[k] = true
					innov++
					s.Genes = append(s.Genes, GeneSpec{In: a.Id, Out: b, W: 1, Innov: innov, Mut: 1, En: true, Trait: base})
					filled = true
				}
			}
		}
		if !filled {
			break
		}
	}
	if cfg.Modules && len(s.Nodes) >= 2 {
		nMod := rapid.IntRange(0, 2).Draw(t, "modules")
		for m := 0; m < nMod; m++ {
			id += rapid.IntRange(1, 2).Draw(t, "module id gap")
			innov += int64(rapid.IntRange(1, 3).Draw(t, "module innov gap"))
			ms := ModuleSpec{Id: id, Act: rapid.IntRange(21, 23).Draw(t, "module act"), Innov: innov, Mut: genModestWeight().Draw(t, "module mut"),
				En: rapid.IntRange(0, 4).Draw(t, "module enabled") != 0, Trait: drawTrait("module trait")}
			// inputs from any node, outputs to non-sensor nodes
			perm := rapid.Permutation(nodeIds(s.Nodes)).Draw(t, "module nodes")
			nIns := rapid.IntRange(1, imin(3, len(perm))).Draw(t, "module ins")
			ms.Ins = append(ms.Ins, perm[:nIns]...)
			overlap := rapid.IntRange(0, 5).Draw(t, "module overlap") == 0
			var cand []int
			for _, x := range perm {
				isIn := false
				for _, y := range ms.Ins {
					isIn = isIn || x == y
				}
				if (!isIn || overlap) && contains(targets, x) {
					cand = append(cand, x)
				}
			}
			if len(cand) == 0 {
				continue
			}
			nOuts := 1
			if !cfg.SingleOutMod {
				nOuts = rapid.IntRange(1, imin(3, len(cand))).Draw(t, "module outs")
			}
			ms.Outs = append(ms.Outs, cand[:nOuts]...)
			if cfg.ModLinkW && rapid.Bool().Draw(t, "module assembled in code") {
				for k := 0; k < len(ms.Ins)+len(ms.Outs); k++ {
					ms.LinkW = append(ms.LinkW, rapid.SampledFrom([]float64{1, 0.5, 2, -1.5, 0.25, 0, 1e10}).Draw(t, "module link weight"))
					ms.LinkRec = append(ms.LinkRec, rapid.IntRange(0, 3).Draw(t, "module link recurrent") == 0)
					if cfg.ModLinkTr && len(s.Traits) > 0 && rapid.Bool().Draw(t, "module link with trait") {
						for len(ms.LinkTr) < k {
							ms.LinkTr = append(ms.LinkTr, 0)
						}
						ms.LinkTr = append(ms.LinkTr, s.Traits[rapid.IntRange(0, len(s.Traits)-1).Draw(t, "module link trait")].Id)
					}
				}
			}
			s.Modules = append(s.Modules, ms)
		}
		if cfg.ShuffleMods && len(s.Modules) > 1 {
			s.Modules = rapid.Permutation(s.Modules).Draw(t, "module order")
		}
	}
	return s
}

func nodeIds(ns []NodeSpec) []int {
	r := make([]int, len(ns))
	for i, n := range ns {
		r[i] = n.Id
	}
	return r
}

func contains(xs []int, x int) bool {
	for _, y := range xs {
		if x == y {
			return true
		}
	}
	return false
}

func imin(a, b int) int {
	if a < b {
		return a
	}
	return b
}

func imax(a, b int) int {
	if a > b {
		return a
	}
	return b
}

/* ------------------------------------------------------------------------------------------------
   G-family: members of one lineage, constructed from a common gene table (no evolution needed)
   ------------------------------------------------------------------------------------------------ */

type tableEntry struct {
	in, out int
	rec     bool
	innov   int64
	// dependencies
	needs   []int // indexes of entries that must be present (the split gene; the entries creating hidden endpoints)
	partner int   // index of the other half of a node split (both halves are always taken together), -1 if none
	start   bool
}

type FamilyCfg struct {
	Members   int
	MaxEvents int
}

// genFamily draws a gene table and `members` genomes that are subsets of it. All members are well-formed, carry
// the start genes, never carry two entries for the same link and agree on what every innovation number and node id denotes.
func genFamily(members int, maxEvents int) *rapid.Generator[[]GenomeSpec] {
	return rapid.Custom(func(t *rapid.T) []GenomeSpec {
		fam := drawFamily(t, members, maxEvents)
		for _, s := range fam {
			if err := SpecWellFormed(s); err != nil {
				panic(fmt.Sprintf("generator bug: G-family produced a malformed genome: %v\n%s", err, jsonStr(s)))
			}
		}
		return fam
	})
}

func drawFamily(t *rapid.T, members, maxEvents int) []GenomeSpec {
	nTraits := rapid.IntRange(1, 3).Draw(t, "traits")
	nIn := rapid.IntRange(1, 3).Draw(t, "inputs")
	hasBias := rapid.Bool().Draw(t, "bias")
	nOut := rapid.IntRange(1, 2).Draw(t, "outputs")
	var nodes []NodeSpec // node table: sensors, outputs, then hidden nodes as they are created
	id := 1
	for i := 0; i < nIn; i++ {
		nodes = append(nodes, NodeSpec{Id: id, Role: roleInput, Act: 17})
		id++
	}
	if hasBias {
		nodes = append(nodes, NodeSpec{Id: id, Role: roleBias, Act: 17})
		id++
	}
	nSensors := len(nodes)
	for i := 0; i < nOut; i++ {
		nodes = append(nodes, NodeSpec{Id: id, Role: roleOutput, Act: rapid.SampledFrom(scalarActs).Draw(t, "act")})
		id++
	}
	creator := map[int]int{} // hidden node id -> index of the first half of the split that created it
	var table []tableEntry
	innov := int64(0)
	type key struct {
		in, out int
		rec     bool
	}
	// start genes: a non-empty subset of sensor->output links (disconnected sensors allowed)
	for i := 0; i < nSensors; i++ {
		for j := nSensors; j < len(nodes); j++ {
			if len(table) == 0 || rapid.IntRange(0, 3).Draw(t, "start link") != 0 {
				innov++
				table = append(table, tableEntry{in: nodes[i].Id, out: nodes[j].Id, innov: innov, partner: -1, start: true})
			}
		}
	}
	nEvents := rapid.IntRange(0, maxEvents).Draw(t, "events")
	for e := 0; e < nEvents; e++ {
		if rapid.IntRange(0, 2).Draw(t, "event kind") == 0 {
			// split of an earlier entry
			idx := rapid.IntRange(0, len(table)-1).Draw(t, "split entry")
			src := table[idx]
			hid := id
			id++
			nodes = append(nodes, NodeSpec{Id: hid, Role: roleHidden, Act: rapid.SampledFrom(scalarActs).Draw(t, "act")})
			deps := []int{idx}
			first := len(table)
			creator[hid] = first
			innov++
			table = append(table, tableEntry{in: src.in, out: hid, rec: src.rec, innov: innov, needs: deps, partner: first + 1})
			innov++
			table = append(table, tableEntry{in: hid, out: src.out, innov: innov, needs: deps, partner: first})
		} else {
			// new link between existing nodes (possibly the same link a second time under a new number)
			a := nodes[rapid.IntRange(0, len(nodes)-1).Draw(t, "link in")]
			b := nodes[rapid.IntRange(nSensors, len(nodes)-1).Draw(t, "link out")]
			rec := rapid.IntRange(0, 3).Draw(t, "link rec") == 0
			var deps []int
			if c, ok := creator[a.Id]; ok {
				deps = append(deps, c)
			}
			if c, ok := creator[b.Id]; ok {
				deps = append(deps, c)
			}
			innov++
			table = append(table, tableEntry{in: a.Id, out: b.Id, rec: rec, innov: innov, needs: deps, partner: -1})
		}
	}
	roleOf := map[int]NodeSpec{}
	for _, n := range nodes {
		roleOf[n.Id] = n
	}
	// Optional renaming shared by the whole lineage: node ids in another order than "sensors, outputs, hidden nodes by
	// age" (a hidden node may carry the lowest id, sensors may follow neurons). Genomes keep their nodes sorted by id; equal innovation numbers still denote equal links.
	rename := map[int]int{}
	if rapid.IntRange(0, 3).Draw(t, "rename nodes") == 0 {
		var ids []int
		for _, n := range nodes {
			ids = append(ids, n.Id)
		}
		perm := rapid.Permutation(ids).Draw(t, "node id permutation")
		for i, n := range nodes {
			rename[n.Id] = perm[i]
		}
	}
	traitIds := make([]int, nTraits)
	for i := range traitIds {
		traitIds[i] = 1 + i
	}
	// (trait ids stay ascending and consecutive: every crossover locates a trait as id - Traits[0].Id, so other orders make the
	// unchanged library index out of range - they are outside the domain, see DESIGN section 9 on C04-r3-m1)
	renamed := func(s GenomeSpec) GenomeSpec {
		if len(rename) == 0 {
			return s
		}
		for i := range s.Nodes {
			s.Nodes[i].Id = rename[s.Nodes[i].Id]
		}
		sort.Slice(s.Nodes, func(a, b int) bool { return s.Nodes[a].Id < s.Nodes[b].Id })
		for i := range s.Genes {
			s.Genes[i].In, s.Genes[i].Out = rename[s.Genes[i].In], rename[s.Genes[i].Out]
		}
		return s
	}
	fam := make([]GenomeSpec, members)
	for m := range fam {
		s := GenomeSpec{Id: m + 1}
		for i := 0; i < nTraits; i++ {
			s.Traits = append(s.Traits, TraitSpec{Id: traitIds[i], Params: genTraitParams(t)})
		}
		pInclude := rapid.Float64Range(0, 1).Draw(t, "include prob")
		taken := make([]bool, len(table))
		links := map[key]bool{}
		for i, en := range table {
			if taken[i] {
				continue
			}
			want := en.start || rapid.Float64Range(0, 1).Draw(t, "include") < pInclude
			if !want {
				continue
			}
			ok := true
			for _, d := range en.needs {
				ok = ok && taken[d]
			}
			group := []int{i}
			if en.partner > i {
				group = append(group, en.partner)
			} else if en.partner >= 0 {
				continue // second half is only taken together with the first
			}
			for _, gi := range group {
				k := key{table[gi].in, table[gi].out, table[gi].rec}
				ok = ok && !links[k]
			}
			if !ok {
				continue
			}
			for _, gi := range group {
				taken[gi] = true
				links[key{table[gi].in, table[gi].out, table[gi].rec}] = true
			}
		}
		used := map[int]bool{}
		for i := 0; i < nSensors+nOut; i++ {
			used[nodes[i].Id] = true
		}
		for i, en := range table {
			if !taken[i] {
				continue
			}
			used[en.in], used[en.out] = true, true
			w := genModestWeight().Draw(t, "w")
			mut := w
			if rapid.IntRange(0, 3).Draw(t, "mut differs") == 0 {
				mut = genModestWeight().Draw(t, "mut")
			}
			s.Genes = append(s.Genes, GeneSpec{In: en.in, Out: en.out, Rec: en.rec, Innov: en.innov, W: w, Mut: mut,
				En: rapid.IntRange(0, 9).Draw(t, "enabled") < 7, Trait: rapid.IntRange(0, nTraits).Draw(t, "gene trait")})
		}
		var ids []int
		for nid := range used {
			ids = append(ids, nid)
		}
		sort.Ints(ids)
		for _, nid := range ids {
			n := roleOf[nid]
			n.Trait = rapid.IntRange(0, nTraits).Draw(t, "node trait")
			s.Nodes = append(s.Nodes, n)
		}
		fam[m] = renamed(s)
	}
	return fam
}

/* ------------------------------------------------------------------------------------------------
   G-opts: options within their documented ranges
   ------------------------------------------------------------------------------------------------ */

func genProb(t *rapid.T, label string) float64 {
	switch rapid.IntRange(0, 5).Draw(t, label+" kind") {
	case 0:
		return 0
	case 1:
		return 1
	default:
		return rapid.Float64Range(0, 1).Draw(t, label)
	}
}

type OptsCfg struct {
	MinPop, MaxPop int
	Structural     bool // bias structural mutation rates upwards
}

func genOpts(cfg OptsCfg) *rapid.Generator[OptSpec] {
	return rapid.Custom(func(t *rapid.T) OptSpec { return drawOpts(t, cfg) })
}

func drawOpts(t *rapid.T, cfg OptsCfg) OptSpec {
	if cfg.MinPop == 0 {
		cfg.MinPop = 3
	}
	if cfg.MaxPop == 0 {
		cfg.MaxPop = pick(40, 120)
	}
	o := OptSpec{
		TraitParamMutProb:      genProb(t, "trait_param_mut_prob"),
		TraitMutationPower:     rapid.Float64Range(0, 2).Draw(t, "trait_mutation_power"),
		WeightMutPower:         rapid.Float64Range(0, 5).Draw(t, "weight_mut_power"),
		DisjointCoeff:          genCoeff().Draw(t, "disjoint"),
		ExcessCoeff:            genCoeff().Draw(t, "excess"),
		MutdiffCoeff:           genCoeff().Draw(t, "mutdiff"),
		CompatThreshold:        rapid.OneOf(rapid.Float64Range(0.05, 1), rapid.Float64Range(0.5, 6), rapid.Float64Range(3, 50)).Draw(t, "compat_threshold"),
		AgeSignificance:        rapid.OneOf(rapid.Just(1.0), rapid.Float64Range(1, 3)).Draw(t, "age_significance"),
		SurvivalThresh:         rapid.OneOf(rapid.Float64Range(0.01, 1), rapid.SampledFrom([]float64{0.2, 0.5, 1})).Draw(t, "survival_thresh"),
		MutateOnlyProb:         genProb(t, "mutate_only_prob"),
		MutateRandomTraitProb:  genProb(t, "mutate_random_trait_prob"),
		MutateLinkTraitProb:    genProb(t, "mutate_link_trait_prob"),
		MutateNodeTraitProb:    genProb(t, "mutate_node_trait_prob"),
		MutateLinkWeightsProb:  genProb(t, "mutate_link_weights_prob"),
		MutateToggleEnableProb: genProb(t, "mutate_toggle_enable_prob"),
		MutateGeneReenableProb: genProb(t, "mutate_gene_reenable_prob"),
		MutateAddNodeProb:      genProb(t, "mutate_add_node_prob"),
		MutateAddLinkProb:      genProb(t, "mutate_add_link_prob"),
		MutateConnectSensors:   genProb(t, "mutate_connect_sensors"),
		InterspeciesMateRate:   genProb(t, "interspecies_mate_rate"),
		MateMultipointProb:     genProb(t, "mate_multipoint_prob"),
		MateMultipointAvgProb:  genProb(t, "mate_multipoint_avg_prob"),
		MateSinglepointProb:    genProb(t, "mate_singlepoint_prob"),
		MateOnlyProb:           genProb(t, "mate_only_prob"),
		RecurOnlyProb:          genProb(t, "recur_only_prob"),
		PopSize:                rapid.IntRange(cfg.MinPop, cfg.MaxPop).Draw(t, "pop_size"),
		DropOffAge:             rapid.IntRange(1, 20).Draw(t, "dropoff_age"),
		NewLinkTries:           rapid.IntRange(1, 50).Draw(t, "newlink_tries"),
		FastCompat:             rapid.Bool().Draw(t, "fast compat"),
	}
	if cfg.Structural {
		// structural rates that make histories actually grow structure
		o.MutateAddNodeProb = rapid.Float64Range(0.05, 0.6).Draw(t, "add node hi")
		o.MutateAddLinkProb = rapid.Float64Range(0.1, 0.9).Draw(t, "add link hi")
		o.MutateOnlyProb = rapid.Float64Range(0.2, 0.9).Draw(t, "mutate only hi")
		o.RecurOnlyProb = rapid.Float64Range(0, 0.7).Draw(t, "recur mid")
	}
	if o.MateMultipointAvgProb+o.MateSinglepointProb == 0 {
		// the mating method is selected with avg/(avg+single): both zero is outside the documented use (0/0)
		o.MateSinglepointProb = 0.5
	}
	o.BabiesStolen = rapid.OneOf(rapid.Just(0), rapid.IntRange(0, o.PopSize/2)).Draw(t, "babies_stolen")
	nAct := rapid.IntRange(1, 4).Draw(t, "activators")
	for i := 0; i < nAct; i++ {
		o.Activators = append(o.Activators, rapid.SampledFrom(scalarActs).Draw(t, "activator"))
		o.ActivatorProbs = append(o.ActivatorProbs, rapid.Float64Range(0.05, 1).Draw(t, "activator prob"))
	}
	return o
}

// defaultOpts returns fixed sane options for checks that need options but do not quantify over them.
func defaultOpts() OptSpec {
	return OptSpec{TraitParamMutProb: 0.5, TraitMutationPower: 1, WeightMutPower: 2.5, DisjointCoeff: 1, ExcessCoeff: 1, MutdiffCoeff: 0.4,
		CompatThreshold: 3, AgeSignificance: 1, SurvivalThresh: 0.2, MutateOnlyProb: 0.25, MutateRandomTraitProb: 0.1, MutateLinkTraitProb: 0.1,
		MutateNodeTraitProb: 0.1, MutateLinkWeightsProb: 0.9, MutateToggleEnableProb: 0.05, MutateGeneReenableProb: 0.05, MutateAddNodeProb: 0.03,
		MutateAddLinkProb: 0.08, MutateConnectSensors: 0.5, InterspeciesMateRate: 0.001, MateMultipointProb: 0.3, MateMultipointAvgProb: 0.3,
		MateSinglepointProb: 0.3, MateOnlyProb: 0.2, RecurOnlyProb: 0, PopSize: 20, DropOffAge: 15, NewLinkTries: 20, Activators: []int{4},
		ActivatorProbs: []float64{1}}
}

func mapGen[U, V any](g *rapid.Generator[U], f func(U) V) *rapid.Generator[V] { return rapid.Map(g, f) }
