package props

import (
	"fmt"

	"github.com/yaricom/goNEAT/v4/neat/genetics"
	"pgregory.net/rapid"
)

/* G-history: a data-driven state machine over a pool of genomes of one lineage and an innovation context.
   The action sequence is generated as data (arguments that depend on the state are drawn as integers and resolved
   modulo the state when executed), so a history is a serialisable case that replays without rapid and shrinks by
   dropping actions; the invariants run after every action. */

type HistoryCase struct {
	Start GenomeSpec `json:"start"`
	Opts  OptSpec    `json:"opts"`
	Ops   []OpSpec   `json:"ops"`
}

const maxPool = 12

func genHistory(maxOps int) *rapid.Generator[HistoryCase] {
	gg := genGenomeSpec(GenomeCfg{MinGenes: 1, MaxHidden: 3, MaxGenes: 10, ModestWeight: true, TraitBase1: false})
	og := genOpts(OptsCfg{})
	kinds := append([]string{}, mutatorKinds...)
	kinds = append(kinds, opAddNode, opAddLink, opAddLink, opToggle, opReEnable) // bias towards structure and flags
	kinds = append(kinds, mateKinds...)
	kinds = append(kinds, mateKinds...)
	kinds = append(kinds, opDuplicate, opDuplicate, opDuplicate, opEndGeneration)
	return rapid.Custom(func(t *rapid.T) HistoryCase {
		c := HistoryCase{Start: gg.Draw(t, "start"), Opts: og.Draw(t, "opts")}
		n := rapid.IntRange(1, maxOps).Draw(t, "ops")
		for i := 0; i < n; i++ {
			c.Ops = append(c.Ops, drawOp(t, kinds))
		}
		return c
	})
}

type historyChecks struct {
	m1  bool // C01: well-formedness of every genome an action produced or touched
	c05 bool // C05: exact before/after relation of each mutator
	c04 bool // C04: inheritance relation of each crossover between pool members
}

func runHistory(c HistoryCase, chk historyChecks, rec *Rec) error {
	opts := c.Opts.Build()
	anc := IORolesOf(c.Start)
	start := c.Start.Build()
	if err := WellFormed(start, anc); err != nil {
		return fmt.Errorf("harness: start genome is malformed: %v", err)
	}
	pool := []*genetics.Genome{start}
	pop := populationFor(c.Start)
	nextId := 1000
	for step, op := range c.Ops {
		subject := pool[op.A%len(pool)]
		subject.Phenotype = nil // callers always hand a genome without (or with a current) phenotype to an operator
		seedLibrary(op.Seed)
		where := fmt.Sprintf("step %d (%s)", step, op.Kind)
		switch {
		case op.Kind == opEndGeneration:
			pop.VerifResetInnovations()
			rec.Class("end of generation")
		case op.Kind == opDuplicate:
			before := Snapshot(subject)
			nextId++
			dup, err := subject.VerifDuplicate(nextId)
			if err != nil {
				return fmt.Errorf("%s: duplicate returned error %v", where, err)
			}
			if chk.m1 {
				if err := WellFormed(dup, anc); err != nil {
					return fmt.Errorf("%s: the duplicate is not well-formed: %v", where, err)
				}
				if d := DiffSpec(before, Snapshot(dup)); d != "" {
					rec.Class("duplicate differs from its source (C06)")
				}
			}
			pool = addToPool(pool, dup, op.B)
			rec.Class("op:" + op.Kind)
		case contains3(mateKinds, op.Kind):
			dad := pool[op.B%len(pool)]
			dad.Phenotype = nil
			b1, b2 := Snapshot(subject), Snapshot(dad)
			nextId++
			child, err := applyMate(subject, dad, op, nextId)
			if err != nil {
				return fmt.Errorf("%s: crossover returned error %v", where, err)
			}
			rec.Class("op:" + op.Kind)
			if subject == dad {
				rec.Class("crossover of a genome with itself")
			}
			if chk.m1 {
				if err := WellFormed(child, anc); err != nil {
					return fmt.Errorf("%s: the child is not well-formed: %v\nmom %s\ndad %s\nchild %s", where, err, jsonStr(b1), jsonStr(b2), jsonStr(Snapshot(child)))
				}
				if err := WellFormed(subject, anc); err != nil {
					return fmt.Errorf("%s: the first parent is not well-formed afterwards: %v", where, err)
				}
			}
			if chk.c04 {
				if d := DiffSpec(b1, Snapshot(subject)); d != "" {
					return fmt.Errorf("%s modified the first parent: %s", where, d)
				}
				if d := DiffSpec(b2, Snapshot(dad)); d != "" {
					return fmt.Errorf("%s modified the second parent: %s", where, d)
				}
				if err := checkCrossoverChild(b1, b2, Snapshot(child), op.Kind, op.F1, op.F2, rec); err != nil {
					return fmt.Errorf("%s: %v", where, err)
				}
			}
			classifyCrossover(b1, b2, rec)
			pool = addToPool(pool, child, op.A+op.B)
		default:
			before := Snapshot(subject)
			hadRecord := len(pop.Innovations()) > 0
			ok, err := applyMutator(subject, op, pop, opts)
			if err != nil {
				return fmt.Errorf("%s returned error %v on genome %s", where, err, jsonStr(before))
			}
			after := Snapshot(subject)
			rec.Class("op:" + op.Kind)
			if ok {
				rec.Class("succeeded:" + op.Kind)
			}
			if chk.m1 {
				if err := WellFormed(subject, anc); err != nil {
					return fmt.Errorf("%s (result %v): the genome is not well-formed afterwards: %v\nbefore %s\nafter  %s", where, ok, err, jsonStr(before), jsonStr(after))
				}
				classifyStructural(before, after, op.Kind, ok, hadRecord, rec)
			}
			if chk.c05 {
				if err := checkMutation(before, after, op, ok, hadRecord, rec); err != nil {
					return fmt.Errorf("%s (result %v): %v\nbefore %s\nafter  %s", where, ok, err, jsonStr(before), jsonStr(after))
				}
			}
		}
	}
	return nil
}

func contains3(xs []string, x string) bool {
	for _, y := range xs {
		if x == y {
			return true
		}
	}
	return false
}

func addToPool(pool []*genetics.Genome, g *genetics.Genome, slot int) []*genetics.Genome {
	if len(pool) < maxPool {
		return append(pool, g)
	}
	pool[slot%len(pool)] = g
	return pool
}

func classifyCrossover(p1, p2 GenomeSpec, rec *Rec) {
	links := map[[3]int]int64{}
	for _, g := range p1.Genes {
		links[[3]int{g.In, g.Out, b2i(g.Rec)}] = g.Innov
	}
	for _, g := range p2.Genes {
		if inn, ok := links[[3]int{g.In, g.Out, b2i(g.Rec)}]; ok && inn != g.Innov {
			rec.Class("crossover with the same link under two innovation numbers")
			break
		}
	}
	if len(p1.Nodes) != len(p2.Nodes) {
		rec.Class("crossover of parents with different node sets")
	}
}

func b2i(b bool) int {
	if b {
		return 1
	}
	return 0
}

func classifyStructural(before, after GenomeSpec, kind string, ok, hadRecord bool, rec *Rec) {
	if !ok || (kind != opAddNode && kind != opAddLink && kind != opConnectSensors) {
		return
	}
	old := map[int64]bool{}
	var maxOld int64
	for _, g := range before.Genes {
		old[g.Innov] = true
		if g.Innov > maxOld {
			maxOld = g.Innov
		}
	}
	for _, g := range after.Genes {
		if !old[g.Innov] && g.Innov < maxOld {
			rec.Class("new gene inserted in the middle of the gene list (innovation reused from the record)")
		}
		if !old[g.Innov] && g.Rec {
			rec.Class("new recurrent gene")
		}
		if !old[g.Innov] && g.In == g.Out {
			rec.Class("new self-loop")
		}
	}
	if hadRecord {
		rec.Class("structural mutation with a non-empty innovation record")
	}
	hidden, disabled := 0, 0
	for _, n := range before.Nodes {
		if n.Role == roleHidden {
			hidden++
		}
	}
	for _, g := range before.Genes {
		if !g.En {
			disabled++
		}
	}
	if hidden > 0 || disabled > 0 {
		rec.NonTrivial(hashOf(kind, len(before.Nodes), len(before.Genes), hidden, disabled, len(after.Genes)))
	}
}
