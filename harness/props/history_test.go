package props

import (
	"fmt"

	"github.com/yaricom/goNEAT/v4/neat/genetics"
	"pgregory.net/rapid"
)

/* G-history: a data-driven state machine over a pool of genomes of one lineage and an innovation context.
   The action sequence is generated as data (arguments that depend on the state are drawn as integers and resolved
   modulo the state when executed), so a history is a serialisable case that replays without rapid and shrinks by
   dropping actions; the invariants run after every action. */

type HistoryCase struct {
	Start GenomeSpec `json:"start"`
	Opts  OptSpec    `json:"opts"`
	Ops   []OpSpec   `json:"ops"`
}

const maxPool = 12

func genHistory(maxOps int) *rapid.Generator[HistoryCase] {
	gg := genGenomeSpec(GenomeCfg{MinGenes: 1, MaxHidden: 3, MaxGenes: 10, ModestWeight: true, TraitBase1: false, LargeRoom: true})
	og := genOpts(OptsCfg{})
	kinds := append([]string{}, mutatorKinds...)
	kinds = append(kinds, opAddNode, opAddLink, opAddLink, opToggle, opReEnable) // bias towards structure and flags
	kinds = append(kinds, mateKinds...)
	kinds = append(kinds, mateKinds...)
	kinds = append(kinds, opDuplicate, opDuplicate, opDuplicate, opEndGeneration)
	return rapid.Custom(func(t *rapid.T) HistoryCase {
		c := HistoryCase{Start: gg.Draw(t, "start"), Opts: og.Draw(t, "opts")}
		n := rapid.IntRange(1, maxOps).Draw(t, "ops")
		for i := 0; i < n; i++ {
			c.Ops = append(c.Ops, drawOp(t, kinds))
		}
		return c
	})
}

type historyChecks struct {
	m1  bool // C01: well-formedness of every genome an action produced or touched
	c05 bool // C05: exact before/after relation of each mutator
	c04 bool // C04: inheritance relation of each crossover between pool members
	c06 bool // C06: duplicates of genomes reached by the history are exact and independent
	c03 bool // C03: innovation ledger over the whole history, identical innovations within a generation
}

func runHistory(c HistoryCase, chk historyChecks, rec *Rec) error {
	opts := c.Opts.Build()
	anc := IORolesOf(c.Start)
	start := c.Start.Build()
	if err := WellFormed(start, anc); err != nil {
		return fmt.Errorf("harness: start genome is malformed: %v", err)
	}
	pool := []*genetics.Genome{start}
	pop := populationFor(c.Start)
	nextId := 1000
	poolSnaps := map[*genetics.Genome]GenomeSpec{start: c.Start}
	var led *histLedger
	if chk.c03 {
		led = newHistLedger()
		if err := led.record(c.Start, "start genome", false); err != nil {
			return fmt.Errorf("harness: %v", err)
		}
	}
	for step, op := range c.Ops {
		subject := pool[op.A%len(pool)]
		subject.Phenotype = nil // callers always hand a genome without (or with a current) phenotype to an operator
		seedLibrary(op.Seed)
		where := fmt.Sprintf("step %d (%s)", step, op.Kind)
		switch {
		case op.Kind == opEndGeneration:
			pop.VerifResetInnovations()
			rec.Class("end of generation")
			if led != nil {
				led.endGeneration()
			}
		case op.Kind == opDuplicate:
			before := Snapshot(subject)
			nextId++
			dup, err := subject.VerifDuplicate(nextId)
			if err != nil {
				return fmt.Errorf("%s: duplicate returned error %v", where, err)
			}
			if chk.m1 {
				if err := WellFormed(dup, anc); err != nil {
					return fmt.Errorf("%s: the duplicate is not well-formed: %v", where, err)
				}
				if d := DiffSpec(before, Snapshot(dup)); d != "" {
					rec.Class("duplicate differs from its source (C06)")
				}
			}
			if chk.c06 {
				if d := DiffSpec(before, Snapshot(dup)); d != "" {
					return fmt.Errorf("%s: the duplicate differs from its source: %s\nsource %s", where, d, jsonStr(before))
				}
				if d := DiffSpec(before, Snapshot(subject)); d != "" {
					return fmt.Errorf("%s: duplicating changed the source: %s", where, d)
				}
				if err := sharedState(subject, dup); err != nil {
					return fmt.Errorf("%s: %v", where, err)
				}
				// from this moment on source and copy are watched: the very next mutation of either must leave the other alone
				poolSnaps[subject], poolSnaps[dup] = before, Snapshot(dup)
				dis, rc, _ := specFeatures(before)
				if dis > 0 {
					rec.Class("disabled gene")
				}
				if rc > 0 {
					rec.Class("recurrent gene")
				}
				if dis > 0 || rc > 0 {
					rec.NonTrivial(hashOf(len(before.Nodes), len(before.Genes), dis, rc))
				}
			}
			if led != nil {
				if err := led.record(Snapshot(dup), where+": the duplicate", true); err != nil {
					return err
				}
			}
			pool = addToPool(pool, dup, op.B)
			rec.Class("op:" + op.Kind)
		case contains3(mateKinds, op.Kind):
			dad := pool[op.B%len(pool)]
			dad.Phenotype = nil
			b1, b2 := Snapshot(subject), Snapshot(dad)
			nextId++
			child, err := applyMate(subject, dad, op, nextId)
			if err != nil {
				return fmt.Errorf("%s: crossover returned error %v", where, err)
			}
			rec.Class("op:" + op.Kind)
			if subject == dad {
				rec.Class("crossover of a genome with itself")
			}
			if chk.m1 {
				if err := WellFormed(child, anc); err != nil {
					return fmt.Errorf("%s: the child is not well-formed: %v\nmom %s\ndad %s\nchild %s", where, err, jsonStr(b1), jsonStr(b2), jsonStr(Snapshot(child)))
				}
				if err := WellFormed(subject, anc); err != nil {
					return fmt.Errorf("%s: the first parent is not well-formed afterwards: %v", where, err)
				}
			}
			if chk.c04 {
				if d := DiffSpec(b1, Snapshot(subject)); d != "" {
					return fmt.Errorf("%s modified the first parent: %s", where, d)
				}
				if d := DiffSpec(b2, Snapshot(dad)); d != "" {
					return fmt.Errorf("%s modified the second parent: %s", where, d)
				}
				if err := checkCrossoverChild(b1, b2, Snapshot(child), op.Kind, op.F1, op.F2, rec); err != nil {
					return fmt.Errorf("%s: %v", where, err)
				}
			}
			if led != nil {
				if err := led.record(Snapshot(child), where+": the child", true); err != nil {
					return err
				}
			}
			if chk.c06 {
				// whether a crossover leaves its parents alone is C04's business: re-base their snapshots
				poolSnaps[subject], poolSnaps[dad], poolSnaps[child] = Snapshot(subject), Snapshot(dad), Snapshot(child)
			}
			classifyCrossover(b1, b2, rec)
			pool = addToPool(pool, child, op.A+op.B)
		default:
			before := Snapshot(subject)
			hadRecord := len(pop.Innovations()) > 0
			ok, err := applyMutator(subject, op, pop, opts)
			if err != nil {
				return fmt.Errorf("%s returned error %v on genome %s", where, err, jsonStr(before))
			}
			after := Snapshot(subject)
			rec.Class("op:" + op.Kind)
			if ok {
				rec.Class("succeeded:" + op.Kind)
			}
			if chk.m1 {
				if err := WellFormed(subject, anc); err != nil {
					return fmt.Errorf("%s (result %v): the genome is not well-formed afterwards: %v\nbefore %s\nafter  %s", where, ok, err, jsonStr(before), jsonStr(after))
				}
				classifyStructural(before, after, op.Kind, ok, hadRecord, rec)
			}
			if chk.c05 {
				if err := checkMutation(before, after, op, ok, hadRecord, rec); err != nil {
					return fmt.Errorf("%s (result %v): %v\nbefore %s\nafter  %s", where, ok, err, jsonStr(before), jsonStr(after))
				}
			}
			if chk.c06 {
				// behavioural independence: no other member of the pool (sources and copies among them) may change
				for j, other := range pool {
					if other == subject {
						continue
					}
					now := Snapshot(other)
					if old, had := poolSnaps[other]; had {
						if d := DiffSpec(old, now); d != "" {
							return fmt.Errorf("%s on pool member %d changed pool member %d, a different genome: %s", where, op.A%len(pool), j, d)
						}
					}
					poolSnaps[other] = now
					if err := lookupOwn(other, after); err != nil {
						return fmt.Errorf("%s on pool member %d, afterwards in pool member %d: %v", where, op.A%len(pool), j, err)
					}
				}
				poolSnaps[subject] = after
			}
			if led != nil {
				if err := led.mutation(before, after, op.Kind, ok, rec); err != nil {
					return fmt.Errorf("%s (result %v): %v\nbefore %s\nafter  %s", where, ok, err, jsonStr(before), jsonStr(after))
				}
			}
		}
	}
	return nil
}

func contains3(xs []string, x string) bool {
	for _, y := range xs {
		if x == y {
			return true
		}
	}
	return false
}

func addToPool(pool []*genetics.Genome, g *genetics.Genome, slot int) []*genetics.Genome {
	if len(pool) < maxPool {
		return append(pool, g)
	}
	pool[slot%len(pool)] = g
	return pool
}

func classifyCrossover(p1, p2 GenomeSpec, rec *Rec) {
	links := map[[3]int]int64{}
	for _, g := range p1.Genes {
		links[[3]int{g.In, g.Out, b2i(g.Rec)}] = g.Innov
	}
	for _, g := range p2.Genes {
		if inn, ok := links[[3]int{g.In, g.Out, b2i(g.Rec)}]; ok && inn != g.Innov {
			rec.Class("crossover with the same link under two innovation numbers")
			break
		}
	}
	if len(p1.Nodes) != len(p2.Nodes) {
		rec.Class("crossover of parents with different node sets")
	}
}

func b2i(b bool) int {
	if b {
		return 1
	}
	return 0
}

func classifyStructural(before, after GenomeSpec, kind string, ok, hadRecord bool, rec *Rec) {
	if !ok || (kind != opAddNode && kind != opAddLink && kind != opConnectSensors) {
		return
	}
	old := map[int64]bool{}
	var maxOld int64
	for _, g := range before.Genes {
		old[g.Innov] = true
		if g.Innov > maxOld {
			maxOld = g.Innov
		}
	}
	for _, g := range after.Genes {
		if !old[g.Innov] && g.Innov < maxOld {
			rec.Class("new gene inserted in the middle of the gene list (innovation reused from the record)")
		}
		if !old[g.Innov] && g.Rec {
			rec.Class("new recurrent gene")
		}
		if !old[g.Innov] && g.In == g.Out {
			rec.Class("new self-loop")
		}
	}
	if hadRecord {
		rec.Class("structural mutation with a non-empty innovation record")
	}
	hidden, disabled := 0, 0
	for _, n := range before.Nodes {
		if n.Role == roleHidden {
			hidden++
		}
	}
	for _, g := range before.Genes {
		if !g.En {
			disabled++
		}
	}
	if hidden > 0 || disabled > 0 {
		rec.NonTrivial(hashOf(kind, len(before.Nodes), len(before.Genes), hidden, disabled, len(after.Genes)))
	}
}

/* ---- C03 on operator histories: the innovation ledger (M3) with the harness in control of the generation boundary ---- */

type histLedger struct {
	genes    map[int64][3]int // innovation -> (in, out, recurrent), over the whole history
	roles    map[int]int      // node id -> role
	maxInnov int64
	maxNode  int
	// the current generation: links invented by add-link / connect-sensors, splits invented by add-node
	genLinks  map[[3]int]int64
	genSplits map[int64][3]int64 // innovation of the split gene -> (new node id, number of in-gene, number of out-gene)
	// links invented in earlier generations (to observe that a forgotten innovation receives a new number)
	oldLinks map[[3]int]int64
}

func newHistLedger() *histLedger {
	return &histLedger{genes: map[int64][3]int{}, roles: map[int]int{}, genLinks: map[[3]int]int64{}, genSplits: map[int64][3]int64{}, oldLinks: map[[3]int]int64{}}
}

func (l *histLedger) endGeneration() {
	for k, v := range l.genLinks {
		l.oldLinks[k] = v
	}
	l.genLinks = map[[3]int]int64{}
	l.genSplits = map[int64][3]int64{}
}

// record enters a genome into the ledger. closed: the genome was produced by duplication or crossover and can therefore
// only carry numbers and node ids that the history has already seen.
func (l *histLedger) record(s GenomeSpec, what string, closed bool) error {
	for _, n := range s.Nodes {
		role, known := l.roles[n.Id]
		if known && role != n.Role {
			return fmt.Errorf("%s: node id %d denotes a node of role %d here and of role %d elsewhere in the history", what, n.Id, n.Role, role)
		}
		if !known {
			if closed {
				return fmt.Errorf("%s carries node id %d which no genome of the history held before", what, n.Id)
			}
			l.roles[n.Id] = n.Role
			if n.Id > l.maxNode {
				l.maxNode = n.Id
			}
		}
	}
	for _, g := range s.Genes {
		k := [3]int{g.In, g.Out, b2i(g.Rec)}
		old, known := l.genes[g.Innov]
		if known && old != k {
			return fmt.Errorf("%s: innovation %d joins %d->%d rec=%d here but %d->%d rec=%d elsewhere in the history", what, g.Innov, k[0], k[1], k[2], old[0], old[1], old[2])
		}
		if !known {
			if closed {
				return fmt.Errorf("%s carries innovation %d which no genome of the history held before", what, g.Innov)
			}
			l.genes[g.Innov] = k
			if g.Innov > l.maxInnov {
				l.maxInnov = g.Innov
			}
		}
	}
	return nil
}

// mutation judges the numbers a mutator handed out and records the mutated genome.
func (l *histLedger) mutation(before, after GenomeSpec, kind string, ok bool, rec *Rec) error {
	prevInnov, prevNode := l.maxInnov, l.maxNode
	bGenes, bNodes := geneIndex(before), nodeIndex(before)
	var newGenes []GeneSpec
	var disabledNow []GeneSpec
	for _, g := range after.Genes {
		if old, had := bGenes[g.Innov]; !had {
			newGenes = append(newGenes, g)
		} else if old.En && !g.En {
			disabledNow = append(disabledNow, old)
		}
	}
	var newNodes []NodeSpec
	for _, n := range after.Nodes {
		if _, had := bNodes[n.Id]; !had {
			newNodes = append(newNodes, n)
		}
	}
	fresh := func(what string, inn int64) error {
		if _, known := l.genes[inn]; known {
			return fmt.Errorf("%s received the innovation number %d which the history already uses", what, inn)
		}
		if inn <= prevInnov {
			return fmt.Errorf("%s received the innovation number %d, not larger than the largest number %d held before", what, inn, prevInnov)
		}
		return nil
	}
	switch {
	case ok && (kind == opAddLink || kind == opConnectSensors):
		for _, g := range newGenes {
			k := [3]int{g.In, g.Out, b2i(g.Rec)}
			what := fmt.Sprintf("the new link %d->%d rec=%d", k[0], k[1], k[2])
			if prev, had := l.genLinks[k]; had {
				if prev != g.Innov {
					return fmt.Errorf("%s was invented twice in one generation and received the numbers %d and %d", what, prev, g.Innov)
				}
				rec.Class("same link invented by several genomes of one generation")
				rec.NonTrivial(hashOf("link", k, g.Innov, len(after.Genes)))
			} else {
				if err := fresh(what, g.Innov); err != nil {
					return err
				}
				if old, had := l.oldLinks[k]; had && old != g.Innov {
					rec.Class("link of an earlier generation invented again under a new number")
					rec.NonTrivial(hashOf("again", k, g.Innov))
				}
				l.genLinks[k] = g.Innov
				if _, both := l.genLinks[[3]int{k[0], k[1], 1 - k[2]}]; both {
					rec.Class("recurrent and non-recurrent link on the same endpoints invented in one generation")
				}
			}
		}
	case ok && kind == opAddNode:
		if len(newNodes) != 1 || len(newGenes) != 2 || len(disabledNow) != 1 {
			break // C05 judges the shape of the mutation; nothing to compare here
		}
		split, n := disabledNow[0], newNodes[0].Id
		var in, out *GeneSpec
		for i := range newGenes {
			if newGenes[i].Out == n {
				in = &newGenes[i]
			} else if newGenes[i].In == n {
				out = &newGenes[i]
			}
		}
		if in == nil || out == nil {
			break
		}
		got := [3]int64{int64(n), in.Innov, out.Innov}
		if prev, had := l.genSplits[split.Innov]; had {
			if prev != got {
				return fmt.Errorf("the split of gene %d (%d->%d) was performed twice in one generation and received (node, in-gene, out-gene) = %v and %v", split.Innov, split.In, split.Out, prev, got)
			}
			rec.Class("same split performed by several genomes of one generation")
			rec.NonTrivial(hashOf("split", split.Innov, got))
		} else {
			if _, known := l.roles[n]; known || n <= prevNode {
				return fmt.Errorf("the node created by splitting gene %d received the id %d, not larger than the largest id %d held before", split.Innov, n, prevNode)
			}
			if err := fresh(fmt.Sprintf("the gene %d->%d created by splitting gene %d", in.In, in.Out, split.Innov), in.Innov); err != nil {
				return err
			}
			if err := fresh(fmt.Sprintf("the gene %d->%d created by splitting gene %d", out.In, out.Out, split.Innov), out.Innov); err != nil {
				return err
			}
			if in.Innov == out.Innov {
				return fmt.Errorf("both genes created by splitting gene %d carry the innovation number %d", split.Innov, in.Innov)
			}
			l.genSplits[split.Innov] = got
		}
	}
	structural := kind == opAddNode || kind == opAddLink || kind == opConnectSensors
	if err := l.record(after, "the genome after "+kind, !structural); err != nil {
		return err
	}
	if l.maxInnov > prevInnov {
		rec.Class("mutation issuing new innovation numbers")
	}
	return nil
}
