package props

import (
	"fmt"
	"math"
	"sort"

	"github.com/yaricom/goNEAT/v4/neat"
	neatmath "github.com/yaricom/goNEAT/v4/neat/math"
	"github.com/yaricom/goNEAT/v4/neat/network"
	"pgregory.net/rapid"
)

/* G-net: networks described by the harness and built either directly from the network constructors or through
   a genome and Genesis. */

type NetNode struct {
	Id   int `json:"id"`
	Role int `json:"role"`
	Act  int `json:"act"`
}

type NetLink struct {
	From int     `json:"from"`
	To   int     `json:"to"`
	W    float64 `json:"w"`
	Rec  bool    `json:"rec,omitempty"`
}

type NetSpec struct {
	Nodes     []NetNode `json:"nodes"` // ascending ids, sensors first
	Links     []NetLink `json:"links"`
	ViaGenome bool      `json:"via_genome"`
	// OutOrder (constructor-built networks only): the order in which the output neurons are handed to NewNetwork as
	// its output list, as indexes into the outputs in node order. Empty = node order.
	OutOrder []int `json:"out_order,omitempty"`
	Renamed  bool  `json:"renamed,omitempty"`
	// Dormant (networks expressed from a genome only): the genome also carries a disabled module and a disabled connection
	// gene; neither is expressed, the network is the plain one
	Dormant bool `json:"dormant_module_and_gene,omitempty"`
	// SensorCtor (constructor-built networks only): input and bias nodes are made with NewSensorNode instead of NewNNode
	SensorCtor bool `json:"sensors_from_sensor_constructor,omitempty"`
}

// outputIds: ids of the output neurons in the order of the network's output list (the order of ReadOutputs).
func (s NetSpec) outputIds() []int {
	var ids []int
	for _, n := range s.Nodes {
		if n.Role == roleOutput {
			ids = append(ids, n.Id)
		}
	}
	if s.ViaGenome || len(s.OutOrder) != len(ids) {
		return ids
	}
	perm := make([]int, len(ids))
	seen := map[int]bool{}
	for i, k := range s.OutOrder {
		if k < 0 || k >= len(ids) || seen[k] {
			return ids
		}
		seen[k] = true
		perm[i] = ids[k]
	}
	return perm
}

func (s NetSpec) counts() (nIn, nBias, nHid, nOut int) {
	for _, n := range s.Nodes {
		switch n.Role {
		case roleInput:
			nIn++
		case roleBias:
			nBias++
		case roleHidden:
			nHid++
		case roleOutput:
			nOut++
		}
	}
	return
}

// Genome returns the genome whose expression is this network (all genes enabled).
func (s NetSpec) Genome() GenomeSpec {
	g := GenomeSpec{Id: 1, Traits: []TraitSpec{{Id: 1, Params: make([]float64, neat.NumTraitParams)}}}
	for _, n := range s.Nodes {
		g.Nodes = append(g.Nodes, NodeSpec{Id: n.Id, Role: n.Role, Act: n.Act, Trait: 1})
	}
	for i, l := range s.Links {
		g.Genes = append(g.Genes, GeneSpec{In: l.From, Out: l.To, W: l.W, Rec: l.Rec, Innov: int64(i + 1), Mut: l.W, En: true, Trait: 1})
	}
	if s.Dormant {
		maxId, first, out := 0, s.Nodes[0].Id, 0
		for _, n := range s.Nodes {
			maxId = imax(maxId, n.Id)
			if n.Role == roleOutput {
				out = n.Id
			}
		}
		for _, n := range s.Nodes {
			if isSensorRole(n.Role) {
				first = n.Id
				break
			}
		}
		// a disabled gene on a pair/flag that no other gene uses: sensor -> output flagged recurrent, or skipped if taken
		taken := false
		for _, l := range s.Links {
			taken = taken || (l.From == first && l.To == out && l.Rec)
		}
		k := int64(len(s.Links))
		if !taken {
			k++
			g.Genes = append(g.Genes, GeneSpec{In: first, Out: out, W: 3, Rec: true, Innov: k, Mut: 3, En: false, Trait: 1})
		}
		g.Modules = append(g.Modules, ModuleSpec{Id: maxId + 1, Act: 21, Innov: k + 1, Mut: 1, En: false, Ins: []int{first}, Outs: []int{out}})
	}
	return g
}

// Build creates a fresh network instance.
func (s NetSpec) Build() (*network.Network, error) {
	if s.ViaGenome {
		return s.Genome().Build().Genesis(1)
	}
	byId := map[int]*network.NNode{}
	var all, in, out []*network.NNode
	for _, ns := range s.Nodes {
		n := network.NewNNode(ns.Id, network.NodeNeuronType(ns.Role))
		if s.SensorCtor && isSensorRole(ns.Role) {
			n = network.NewSensorNode(ns.Id, ns.Role == roleBias)
		}
		n.ActivationType = neatmath.NodeActivationType(ns.Act)
		byId[ns.Id] = n
		all = append(all, n)
		if isSensorRole(ns.Role) {
			in = append(in, n)
		} else if ns.Role == roleOutput {
			out = append(out, n)
		}
	}
	for _, l := range s.Links {
		link := byId[l.To].ConnectFrom(byId[l.From], l.W)
		link.IsRecurrent = l.Rec
	}
	out = out[:0]
	for _, id := range s.outputIds() {
		out = append(out, byId[id])
	}
	return network.NewNetwork(in, out, all, 1), nil
}

type NetCfg struct {
	Cyclic        bool // any (source, non-sensor target) pair incl. self-loops, instead of a DAG
	MinHidden     int
	MaxHidden     int
	AllowOrphans  bool // neurons without any source (DAG variant)
	ParallelLinks bool // a recurrent and a non-recurrent link on the same ordered pair (cyclic variant)
	LongChains    bool // one net in fifteen is a long sparse chain (20-70 neurons, at most six shortcut links)
	Rename        bool // one net in five gets its node ids permuted (sensors no longer first in the node list)
	Wide          bool // one DAG in forty is wide and shallow: 100-300 hidden neurons between the sensors and the outputs
	Dense         bool // one DAG in sixty is (almost) fully connected over 14-18 neurons: 10^4 - 10^5 simple paths
	BigRecurrent  bool // one cyclic net in thirty is large and sparse (100-300 hidden neurons, many self loops)
	// FlaggedLinks (DAG variant): one net in five carries links with the recurrence flag although it has no cycle - the flag is
	// an attribute a gene received when a path back existed; that path may be gone (its gene disabled) while the flagged gene
	// is still expressed. Some of them run parallel to an ordinary link on the same ordered pair.
	FlaggedLinks bool
	ManyIO       bool // one DAG in twelve has many sensors and outputs (up to 40 inputs, 6 bias nodes, 24 outputs)
}

func genNet(cfg NetCfg) *rapid.Generator[NetSpec] {
	return rapid.Custom(func(t *rapid.T) NetSpec { return drawNet(t, cfg) })
}

func genNetWeight() *rapid.Generator[float64] {
	return rapid.OneOf(rapid.Float64Range(-5, 5), rapid.Float64Range(-5, 5), rapid.Float64Range(-1, 1),
		rapid.SampledFrom([]float64{1, -1, 0.5, 0, 100, -100, 2.5}))
}

// drawChain: a long, sparse acyclic network: sensor -> h1 -> h2 -> ... -> hN -> output with a few forward shortcuts. The
// library's depth search enumerates simple paths, which stays cheap here (at most 2^6 paths) although the network is large.
func drawChain(t *rapid.T) NetSpec {
	s := NetSpec{ViaGenome: rapid.Bool().Draw(t, "via genome")}
	n := rapid.IntRange(20, 70).Draw(t, "chain length")
	s.Nodes = append(s.Nodes, NetNode{Id: 1, Role: roleInput, Act: 17})
	for i := 0; i < n; i++ {
		s.Nodes = append(s.Nodes, NetNode{Id: 2 + i, Role: roleHidden, Act: 4})
	}
	s.Nodes = append(s.Nodes, NetNode{Id: 2 + n, Role: roleOutput, Act: 4})
	for i := 0; i <= n; i++ {
		s.Links = append(s.Links, NetLink{From: 1 + i, To: 2 + i, W: genNetWeight().Draw(t, "w")})
	}
	seen := map[[2]int]bool{}
	for k := rapid.IntRange(0, 6).Draw(t, "shortcuts"); k > 0; k-- {
		a := rapid.IntRange(1, n).Draw(t, "shortcut from")
		b := rapid.IntRange(a+2, n+2).Draw(t, "shortcut to")
		if !seen[[2]int{a, b}] {
			seen[[2]int{a, b}] = true
			s.Links = append(s.Links, NetLink{From: a, To: b, W: genNetWeight().Draw(t, "w")})
		}
	}
	return s
}

// renameNet applies a generated permutation to the node ids: the node list (kept sorted by id) then no longer starts with
// the sensors, and hidden nodes may precede inputs and outputs.
func renameNet(t *rapid.T, s NetSpec) NetSpec {
	ids := make([]int, len(s.Nodes))
	for i, n := range s.Nodes {
		ids[i] = n.Id
	}
	perm := rapid.Permutation(ids).Draw(t, "node id permutation")
	m := map[int]int{}
	for i, id := range ids {
		m[id] = perm[i]
	}
	// outputs in node order change with the renaming: keep the output list as the same neurons in the same order
	oldOut := s.outputIds()
	for i := range s.Nodes {
		s.Nodes[i].Id = m[s.Nodes[i].Id]
	}
	sort.Slice(s.Nodes, func(a, b int) bool { return s.Nodes[a].Id < s.Nodes[b].Id })
	for i := range s.Links {
		s.Links[i].From, s.Links[i].To = m[s.Links[i].From], m[s.Links[i].To]
	}
	if !s.ViaGenome && len(s.OutOrder) > 0 {
		var newOut []int
		for _, n := range s.Nodes {
			if n.Role == roleOutput {
				newOut = append(newOut, n.Id)
			}
		}
		for i, old := range oldOut {
			for k, id := range newOut {
				if id == m[old] {
					s.OutOrder[i] = k
				}
			}
		}
	}
	s.Renamed = true
	return s
}

func drawNet(t *rapid.T, cfg NetCfg) NetSpec {
	s := drawNetPlain(t, cfg)
	if s.ViaGenome && rapid.IntRange(0, 5).Draw(t, "dormant module") == 0 {
		s.Dormant = true
	}
	if !s.ViaGenome && rapid.IntRange(0, 3).Draw(t, "sensor constructor") == 0 {
		s.SensorCtor = true
	}
	if cfg.Rename && rapid.IntRange(0, 4).Draw(t, "rename nodes") == 0 {
		s = renameNet(t, s)
	}
	return s
}

// drawBigRecurrent: a large sparse recurrent network: every hidden neuron is fed by a sensor and feeds an output, about
// half of them carry a self loop (state that survives a step), a few feed their successor. The number of simple paths
// stays small, so the library's depth search stays cheap.
func drawBigRecurrent(t *rapid.T) NetSpec {
	s := NetSpec{ViaGenome: rapid.Bool().Draw(t, "via genome")}
	nIn := rapid.IntRange(1, 3).Draw(t, "inputs")
	nBias := rapid.IntRange(0, 1).Draw(t, "bias")
	nOut := rapid.IntRange(1, 2).Draw(t, "outputs")
	nHid := rapid.IntRange(100, 300).Draw(t, "hidden (big)")
	id := 1
	for i := 0; i < nBias; i++ {
		s.Nodes = append(s.Nodes, NetNode{Id: id, Role: roleBias, Act: 17})
		id++
	}
	for i := 0; i < nIn; i++ {
		s.Nodes = append(s.Nodes, NetNode{Id: id, Role: roleInput, Act: 17})
		id++
	}
	nSensors := len(s.Nodes)
	for i := 0; i < nOut; i++ {
		s.Nodes = append(s.Nodes, NetNode{Id: id, Role: roleOutput, Act: 4})
		id++
	}
	firstHidden := id
	for i := 0; i < nHid; i++ {
		s.Nodes = append(s.Nodes, NetNode{Id: id, Role: roleHidden, Act: rapid.SampledFrom([]int{1, 2, 4, 7}).Draw(t, "act")})
		id++
	}
	selfP := rapid.Float64Range(0.2, 0.9).Draw(t, "self loop prob")
	for i := 0; i < nHid; i++ {
		h := firstHidden + i
		s.Links = append(s.Links, NetLink{From: 1 + rapid.IntRange(0, nSensors-1).Draw(t, "sensor"), To: h, W: rapid.Float64Range(-2, 2).Draw(t, "w")})
		s.Links = append(s.Links, NetLink{From: h, To: nSensors + 1 + rapid.IntRange(0, nOut-1).Draw(t, "output"), W: rapid.Float64Range(-1, 1).Draw(t, "w")})
		if rapid.Float64Range(0, 1).Draw(t, "self") < selfP {
			s.Links = append(s.Links, NetLink{From: h, To: h, W: rapid.Float64Range(-1.5, 1.5).Draw(t, "w"), Rec: rapid.Bool().Draw(t, "rec")})
		}
		if i+1 < nHid && rapid.IntRange(0, 9).Draw(t, "to successor") == 0 {
			s.Links = append(s.Links, NetLink{From: h, To: h + 1, W: rapid.Float64Range(-1, 1).Draw(t, "w")})
		}
	}
	return s
}

// drawDense: an (almost) complete DAG: neuron i is fed by the sensor and by every earlier neuron. The depth search
// enumerates every simple path (2^n of them), the longest one - through all neurons - is found late.
func drawDense(t *rapid.T) NetSpec {
	s := NetSpec{ViaGenome: rapid.Bool().Draw(t, "via genome")}
	n := rapid.IntRange(14, 18).Draw(t, "dense neurons")
	s.Nodes = append(s.Nodes, NetNode{Id: 1, Role: roleInput, Act: 17})
	for i := 0; i < n; i++ {
		role := roleHidden
		if i == n-1 {
			role = roleOutput
		}
		s.Nodes = append(s.Nodes, NetNode{Id: 2 + i, Role: role, Act: 4})
	}
	drop := rapid.IntRange(0, 3).Draw(t, "dropped links")
	for i := 0; i < n; i++ {
		for j := -1; j < i; j++ {
			if drop > 0 && j >= 0 && j < i-1 && rapid.IntRange(0, 40).Draw(t, "drop") == 0 {
				drop--
				continue
			}
			s.Links = append(s.Links, NetLink{From: 2 + j, To: 2 + i, W: rapid.Float64Range(-1, 1).Draw(t, "w")})
		}
	}
	return s
}

// drawWide: a wide, shallow feed-forward network (more neurons than any fixed-size buffer one might think of): every hidden
// neuron is fed by one or two sensors and feeds one output; a few hidden neurons also feed a later hidden neuron.
func drawWide(t *rapid.T) NetSpec {
	s := NetSpec{ViaGenome: rapid.Bool().Draw(t, "via genome")}
	nIn := rapid.IntRange(1, 3).Draw(t, "inputs")
	nBias := rapid.IntRange(0, 1).Draw(t, "bias")
	nOut := rapid.IntRange(1, 3).Draw(t, "outputs")
	nHid := rapid.IntRange(100, 300).Draw(t, "hidden (wide)")
	id := 1
	for i := 0; i < nIn; i++ {
		s.Nodes = append(s.Nodes, NetNode{Id: id, Role: roleInput, Act: 17})
		id++
	}
	for i := 0; i < nBias; i++ {
		s.Nodes = append(s.Nodes, NetNode{Id: id, Role: roleBias, Act: 17})
		id++
	}
	nSensors := len(s.Nodes)
	for i := 0; i < nOut; i++ {
		s.Nodes = append(s.Nodes, NetNode{Id: id, Role: roleOutput, Act: rapid.SampledFrom([]int{1, 4, 11}).Draw(t, "act")})
		id++
	}
	firstHidden := id
	for i := 0; i < nHid; i++ {
		s.Nodes = append(s.Nodes, NetNode{Id: id, Role: roleHidden, Act: rapid.SampledFrom([]int{1, 2, 4, 7, 11}).Draw(t, "act")})
		id++
	}
	for i := 0; i < nHid; i++ {
		h := firstHidden + i
		a := rapid.IntRange(0, nSensors-1).Draw(t, "sensor")
		s.Links = append(s.Links, NetLink{From: 1 + a, To: h, W: rapid.Float64Range(-2, 2).Draw(t, "w")})
		if nSensors > 1 && rapid.IntRange(0, 3).Draw(t, "second sensor") == 0 {
			s.Links = append(s.Links, NetLink{From: 1 + (a+1)%nSensors, To: h, W: rapid.Float64Range(-2, 2).Draw(t, "w")})
		}
		s.Links = append(s.Links, NetLink{From: h, To: nSensors + 1 + rapid.IntRange(0, nOut-1).Draw(t, "output"), W: rapid.Float64Range(-0.2, 0.2).Draw(t, "w")})
		if i+1 < nHid && rapid.IntRange(0, 19).Draw(t, "to a later neuron") == 0 {
			s.Links = append(s.Links, NetLink{From: h, To: h + 1 + rapid.IntRange(0, nHid-i-2).Draw(t, "later"), W: rapid.Float64Range(-1, 1).Draw(t, "w")})
		}
	}
	return s
}

func drawNetPlain(t *rapid.T, cfg NetCfg) NetSpec {
	if cfg.Wide && !cfg.Cyclic && rapid.IntRange(0, 39).Draw(t, "wide") == 11 {
		return drawWide(t)
	}
	if cfg.Dense && !cfg.Cyclic && rapid.IntRange(0, 59).Draw(t, "dense") == 17 {
		return drawDense(t)
	}
	if cfg.BigRecurrent && cfg.Cyclic && rapid.IntRange(0, 29).Draw(t, "big recurrent") == 7 {
		return drawBigRecurrent(t)
	}
	if cfg.LongChains && !cfg.Cyclic && rapid.IntRange(0, 29).Draw(t, "long chain") == 13 {
		return drawChain(t)
	}
	s := NetSpec{ViaGenome: rapid.Bool().Draw(t, "via genome")}
	nIn := rapid.IntRange(1, 4).Draw(t, "inputs")
	nBias := rapid.IntRange(0, 3).Draw(t, "bias")
	if rapid.Bool().Draw(t, "no bias") {
		nBias = 0
	}
	nOut := rapid.IntRange(1, 3).Draw(t, "outputs")
	maxHidden := cfg.MaxHidden
	if maxHidden == 0 {
		maxHidden = 8
	}
	nHid := rapid.IntRange(cfg.MinHidden, maxHidden).Draw(t, "hidden")
	if cfg.ManyIO && !cfg.Cyclic && rapid.IntRange(0, 11).Draw(t, "many sensors and outputs") == 5 {
		nIn, nBias, nOut = rapid.IntRange(5, 40).Draw(t, "inputs (many)"), rapid.IntRange(0, 6).Draw(t, "bias (many)"), rapid.IntRange(4, 24).Draw(t, "outputs (many)")
	}
	id := 1
	roles := []int{}
	for i := 0; i < nIn; i++ {
		roles = append(roles, roleInput)
	}
	for i := 0; i < nBias; i++ {
		pos := rapid.IntRange(0, len(roles)).Draw(t, "bias pos")
		roles = append(roles[:pos], append([]int{roleBias}, roles[pos:]...)...)
	}
	for _, r := range roles {
		s.Nodes = append(s.Nodes, NetNode{Id: id, Role: r, Act: 17})
		id++
	}
	nSensors := len(s.Nodes)
	neuronRoles := []int{}
	for i := 0; i < nOut; i++ {
		neuronRoles = append(neuronRoles, roleOutput)
	}
	for i := 0; i < nHid; i++ {
		pos := rapid.IntRange(0, len(neuronRoles)).Draw(t, "hidden pos")
		neuronRoles = append(neuronRoles[:pos], append([]int{roleHidden}, neuronRoles[pos:]...)...)
	}
	actPool := scalarActs
	if rapid.IntRange(0, 2).Draw(t, "smooth only") == 0 {
		actPool = []int{1, 2, 3, 4, 7, 11, 14} // smooth, well-conditioned activations
	}
	for _, r := range neuronRoles {
		s.Nodes = append(s.Nodes, NetNode{Id: id, Role: r, Act: rapid.SampledFrom(actPool).Draw(t, "act")})
		id++
	}
	if !s.ViaGenome && nOut > 1 && rapid.IntRange(0, 2).Draw(t, "permute outputs") == 0 {
		idx := make([]int, nOut)
		for i := range idx {
			idx[i] = i
		}
		s.OutOrder = rapid.Permutation(idx).Draw(t, "output order")
	}
	neurons := s.Nodes[nSensors:]
	if cfg.Cyclic {
		p := rapid.Float64Range(0.05, 0.6).Draw(t, "link prob")
		for _, a := range s.Nodes {
			for _, b := range neurons {
				if rapid.Float64Range(0, 1).Draw(t, "link") < p {
					rec := rapid.IntRange(0, 3).Draw(t, "rec") == 0
					s.Links = append(s.Links, NetLink{From: a.Id, To: b.Id, W: genNetWeight().Draw(t, "w"), Rec: rec})
					if cfg.ParallelLinks && rapid.IntRange(0, 9).Draw(t, "parallel") == 0 {
						s.Links = append(s.Links, NetLink{From: a.Id, To: b.Id, W: genNetWeight().Draw(t, "w"), Rec: !rec})
					}
				}
			}
		}
		if len(s.Links) == 0 {
			s.Links = append(s.Links, NetLink{From: s.Nodes[0].Id, To: neurons[0].Id, W: 1})
		}
		return s
	}
	// DAG: a random topological order of the neurons (independent of the id order)
	order := rapid.Permutation(neurons).Draw(t, "topological order")
	p := rapid.Float64Range(0, 0.6).Draw(t, "extra link prob")
	for i, b := range order {
		var sources []NetNode
		sources = append(sources, s.Nodes[:nSensors]...)
		sources = append(sources, order[:i]...)
		must := -1
		if !(cfg.AllowOrphans && rapid.IntRange(0, 9).Draw(t, "orphan") == 0) {
			must = rapid.IntRange(0, len(sources)-1).Draw(t, "source")
			if i > 0 && rapid.Bool().Draw(t, "chain") {
				must = nSensors + i - 1 // prefer deep chains
			}
		}
		for j, a := range sources {
			if j == must || rapid.Float64Range(0, 1).Draw(t, "extra") < p {
				s.Links = append(s.Links, NetLink{From: a.Id, To: b.Id, W: genNetWeight().Draw(t, "w")})
			}
		}
	}
	if len(s.Links) == 0 {
		s.Links = append(s.Links, NetLink{From: s.Nodes[0].Id, To: order[0].Id, W: 1})
	}
	if cfg.FlaggedLinks && rapid.IntRange(0, 4).Draw(t, "flagged links") == 0 {
		n := len(s.Links)
		for i := 0; i < n; i++ {
			switch rapid.IntRange(0, 5).Draw(t, "flag") {
			case 0:
				s.Links[i].Rec = true
			case 1: // a flagged twin on the same ordered pair
				s.Links = append(s.Links, NetLink{From: s.Links[i].From, To: s.Links[i].To, W: genNetWeight().Draw(t, "w"), Rec: true})
			}
		}
	}
	return s
}

// BuildSolverDirect creates a fast solver through its public constructor instead of deriving it from a network: neurons are
// indexed bias, inputs, outputs, hidden; every link - also those leaving a bias neuron - is an ordinary connection and the
// bias list is empty (the form a model file or a caller of the constructor may use).
func (s NetSpec) BuildSolverDirect() *network.FastModularNetworkSolver {
	index := map[int]int{}
	var acts []neatmath.NodeActivationType
	add := func(n NetNode) {
		index[n.Id] = len(acts)
		acts = append(acts, neatmath.NodeActivationType(n.Act))
	}
	nIn, nBias, _, nOut := s.counts()
	for _, role := range []int{roleBias, roleInput} {
		for _, n := range s.Nodes {
			if n.Role == role {
				add(n)
			}
		}
	}
	byId := map[int]NetNode{}
	for _, n := range s.Nodes {
		byId[n.Id] = n
	}
	for _, id := range s.outputIds() {
		add(byId[id])
	}
	for _, n := range s.Nodes {
		if n.Role == roleHidden {
			add(n)
		}
	}
	var conns []*network.FastNetworkLink
	for _, l := range s.Links {
		conns = append(conns, &network.FastNetworkLink{SourceIndex: index[l.From], TargetIndex: index[l.To], Weight: l.W})
	}
	return network.NewFastModularNetworkSolver(nBias, nIn, nOut, len(acts), acts, conns, make([]float64, len(acts)), nil)
}

/* ---- reference models over a NetSpec ---- */

// topoOrder returns the neuron ids in a topological order of the link graph, or false if it has a cycle.
func (s NetSpec) topoOrder() ([]int, bool) {
	indeg := map[int]int{}
	succ := map[int][]int{}
	for _, n := range s.Nodes {
		indeg[n.Id] = 0
	}
	for _, l := range s.Links {
		indeg[l.To]++
		succ[l.From] = append(succ[l.From], l.To)
	}
	var queue, order []int
	for _, n := range s.Nodes {
		if indeg[n.Id] == 0 {
			queue = append(queue, n.Id)
		}
	}
	for len(queue) > 0 {
		u := queue[0]
		queue = queue[1:]
		order = append(order, u)
		for _, v := range succ[u] {
			indeg[v]--
			if indeg[v] == 0 {
				queue = append(queue, v)
			}
		}
	}
	return order, len(order) == len(s.Nodes)
}

// longestPathToOutputs: number of links on the longest path that ends in an output (M8, DP over a topological order).
func (s NetSpec) longestPathToOutputs() (int, error) {
	order, ok := s.topoOrder()
	if !ok {
		return 0, fmt.Errorf("graph has a cycle")
	}
	depth := map[int]int{}
	pred := map[int][]int{}
	for _, l := range s.Links {
		pred[l.To] = append(pred[l.To], l.From)
	}
	best := 0
	roleOf := map[int]int{}
	for _, n := range s.Nodes {
		roleOf[n.Id] = n.Role
	}
	for _, v := range order {
		d := 0
		for _, u := range pred[v] {
			if depth[u]+1 > d {
				d = depth[u] + 1
			}
		}
		depth[v] = d
		if roleOf[v] == roleOutput && d > best {
			best = d
		}
	}
	return best, nil
}

// lipschitz constants of the scalar activations (0 marks a discontinuous one)
var lipschitz = map[int]float64{1: 0.25, 2: 0.125, 3: 2.47, 4: 1.24, 5: 0.25, 6: 1, 7: 0.5, 8: 0.25, 9: 1.24, 10: 1.24, 11: 0.9, 12: 4.3,
	13: 0.86, 14: 1, 15: 1, 16: 1, 17: 0, 18: -1, 19: 2, 20: -1}

type evalResult struct {
	out       []float64 // value at every output, in node order
	bound     []float64 // propagated rounding bound per output
	illPosed  bool      // a discontinuous activation was evaluated within its bound of the jump
	biasUsed  bool
	maxBound  float64
	valueById map[int]float64
}

// evalFeedForward is M7: every neuron once, in topological order, activation(sum of weight*source), bias = 1,
// carrying a rounding bound. withBias=false evaluates the same network with the bias inputs at 0.
func (s NetSpec) evalFeedForward(inputs []float64, withBias bool) (evalResult, error) {
	order, ok := s.topoOrder()
	if !ok {
		return evalResult{}, fmt.Errorf("graph has a cycle")
	}
	const eps = 1.2e-16
	val, bnd := map[int]float64{}, map[int]float64{}
	act := map[int]int{}
	role := map[int]int{}
	k := 0
	for _, n := range s.Nodes {
		act[n.Id], role[n.Id] = n.Act, n.Role
		switch n.Role {
		case roleInput:
			val[n.Id] = inputs[k]
			k++
		case roleBias:
			if withBias {
				val[n.Id] = 1
			}
		}
	}
	incoming := map[int][]NetLink{}
	for _, l := range s.Links {
		incoming[l.To] = append(incoming[l.To], l)
	}
	res := evalResult{valueById: val}
	for _, v := range order {
		if isSensorRole(role[v]) {
			continue
		}
		sum, absSum, errIn := 0.0, 0.0, 0.0
		for _, l := range incoming[v] {
			sum += l.W * val[l.From]
			absSum += math.Abs(l.W * val[l.From])
			errIn += math.Abs(l.W) * bnd[l.From]
			if role[l.From] == roleBias && l.W != 0 {
				res.biasUsed = true
			}
		}
		eSum := errIn + eps*float64(len(incoming[v])+2)*absSum
		out, err := neatmath.NodeActivators.ActivateByType(sum, nil, neatmath.NodeActivationType(act[v]))
		if err != nil {
			return res, err
		}
		lip := lipschitz[act[v]]
		if lip < 0 { // step, sign: exact unless the sum is within its bound of the jump at 0
			if math.Abs(sum) <= eSum && eSum > 0 {
				res.illPosed = true
			}
			lip = 0
		}
		val[v] = out
		bnd[v] = lip*eSum + 4*eps*math.Max(math.Abs(out), 1) // the activation functions are evaluated with an absolute error of a few ulps of 1 (differences and quotients of exponentials near a zero output)
	}
	for _, id := range s.outputIds() {
		res.out = append(res.out, val[id])
		res.bound = append(res.bound, bnd[id])
		res.maxBound = math.Max(res.maxBound, bnd[id])
	}
	return res, nil
}

func sortedInts(m map[int]bool) []int {
	var r []int
	for k := range m {
		r = append(r, k)
	}
	sort.Ints(r)
	return r
}
