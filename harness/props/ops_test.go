package props

import (
	"math"
	"fmt"

	"github.com/yaricom/goNEAT/v4/neat"
	"github.com/yaricom/goNEAT/v4/neat/genetics"
	"pgregory.net/rapid"
)

/* Operator descriptions shared by the operator state machine (C01, C05) and by C06 */

const (
	opDuplicate      = "duplicate"
	opAddNode        = "add_node"
	opAddLink        = "add_link"
	opConnectSensors = "connect_sensors"
	opWeights        = "link_weights"
	opRandomTrait    = "random_trait"
	opLinkTrait      = "link_trait"
	opNodeTrait      = "node_trait"
	opToggle         = "toggle_enable"
	opReEnable       = "gene_reenable"
	opAllNonStruct   = "all_nonstructural"
	opMateMultipoint = "mate_multipoint"
	opMateMultiAvg   = "mate_multipoint_avg"
	opMateSingle     = "mate_singlepoint"
	opEndGeneration  = "end_generation"
)

var mutatorKinds = []string{opAddNode, opAddLink, opConnectSensors, opWeights, opRandomTrait, opLinkTrait, opNodeTrait, opToggle, opReEnable, opAllNonStruct}
var nonStructuralKinds = []string{opWeights, opRandomTrait, opLinkTrait, opNodeTrait, opToggle, opReEnable, opAllNonStruct}
var mateKinds = []string{opMateMultipoint, opMateMultiAvg, opMateSingle}

type OpSpec struct {
	Kind  string  `json:"kind"`
	A     int     `json:"a"`               // subject (index into the pool, resolved modulo its size)
	B     int     `json:"b,omitempty"`     // second parent / pre-recording member
	Times int     `json:"times,omitempty"` // repetitions for trait / toggle mutators
	Power float64 `json:"power,omitempty"`
	Rate  float64 `json:"rate,omitempty"`
	Cold  bool    `json:"cold,omitempty"`
	F1    float64 `json:"f1,omitempty"`
	F2    float64 `json:"f2,omitempty"`
	Seed  int64   `json:"seed"` // seed of the library's global random source for this step
}

func drawOp(t *rapid.T, kinds []string) OpSpec {
	op := OpSpec{Kind: rapid.SampledFrom(kinds).Draw(t, "op"), A: rapid.IntRange(0, 50).Draw(t, "a"), Seed: int64(rapid.IntRange(0, 1<<30).Draw(t, "seed"))}
	switch op.Kind {
	case opWeights:
		op.Power = rapid.Float64Range(0, 5).Draw(t, "power")
		op.Rate = rapid.Float64Range(0, 1).Draw(t, "rate")
		op.Cold = rapid.IntRange(0, 4).Draw(t, "cold") == 0
	case opLinkTrait, opNodeTrait, opToggle:
		op.Times = rapid.IntRange(1, 3).Draw(t, "times")
	case opMateMultipoint, opMateMultiAvg, opMateSingle:
		op.B = rapid.IntRange(0, 50).Draw(t, "b")
		op.F1 = float64(rapid.IntRange(0, 3).Draw(t, "f1"))
		op.F2 = float64(rapid.IntRange(0, 3).Draw(t, "f2"))
		switch rapid.IntRange(0, 7).Draw(t, "almost a tie") {
		case 0: // the second parent is fitter by the smallest possible margin
			op.F2 = math.Nextafter(op.F1, 100)
		case 1: // ... or the first one
			op.F1 = math.Nextafter(op.F2, 100)
		case 2:
			op.F1, op.F2 = op.F1*1e-13, op.F2*1e-13 // the fitness values of a task with a tiny scale
		}
	}
	return op
}

// applyMutator applies one of the ten mutators to g. The population object provides the innovation record and
// the id / innovation counters exactly as it does inside an epoch.
func applyMutator(g *genetics.Genome, op OpSpec, pop *genetics.Population, opts *neat.Options) (bool, error) {
	switch op.Kind {
	case opAddNode:
		return g.VerifMutateAddNode(pop, pop, opts)
	case opAddLink:
		return g.VerifMutateAddLink(pop, 1, opts)
	case opConnectSensors:
		return g.VerifMutateConnectSensors(pop, opts)
	case opWeights:
		return g.VerifMutateLinkWeights(op.Power, op.Rate, op.Cold)
	case opRandomTrait:
		return g.VerifMutateRandomTrait(opts)
	case opLinkTrait:
		return g.VerifMutateLinkTrait(op.Times)
	case opNodeTrait:
		return g.VerifMutateNodeTrait(op.Times)
	case opToggle:
		return g.VerifMutateToggleEnable(op.Times)
	case opReEnable:
		return g.VerifMutateGeneReEnable()
	case opAllNonStruct:
		return g.VerifMutateAllNonstructural(opts)
	}
	return false, fmt.Errorf("harness: unknown mutator %q", op.Kind)
}

func applyMate(mom, dad *genetics.Genome, op OpSpec, childId int) (*genetics.Genome, error) {
	switch op.Kind {
	case opMateMultipoint:
		return mom.VerifMateMultipoint(dad, childId, op.F1, op.F2)
	case opMateMultiAvg:
		return mom.VerifMateMultipointAvg(dad, childId, op.F1, op.F2)
	case opMateSingle:
		return mom.VerifMateSinglePoint(dad, childId)
	}
	return nil, fmt.Errorf("harness: unknown crossover %q", op.Kind)
}

// maxIds returns the largest node id (control nodes included) and innovation number (modules included) of a genome.
func maxIds(s GenomeSpec) (maxNode int, maxInnov int64) {
	for _, n := range s.Nodes {
		maxNode = imax(maxNode, n.Id)
	}
	for _, g := range s.Genes {
		if g.Innov > maxInnov {
			maxInnov = g.Innov
		}
	}
	for _, m := range s.Modules {
		maxNode = imax(maxNode, m.Id)
		if m.Innov > maxInnov {
			maxInnov = m.Innov
		}
	}
	return
}

// populationFor builds an empty population whose counters are past everything the given genomes use, the way
// spawning / reading a population initialises them.
func populationFor(specs ...GenomeSpec) *genetics.Population {
	maxNode, maxInnov := 0, int64(0)
	for _, s := range specs {
		n, i := maxIds(s)
		maxNode = imax(maxNode, n)
		if i > maxInnov {
			maxInnov = i
		}
	}
	return genetics.VerifNewPopulation(maxInnov, maxNode+1)
}
