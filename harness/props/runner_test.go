package props

import (
	"encoding/binary"
	"encoding/json"
	"flag"
	"fmt"
	"math/rand"
	"os"
	"path/filepath"
	"runtime"
	"runtime/debug"
	"strconv"
	"testing"
	"time"

	"github.com/yaricom/goNEAT/v4/neat"
	"pgregory.net/rapid"
)

/* ------------------------------------------------------------------------------------------------
   Per-case recorder and per-test statistics (what the evidence file is built from)
   ------------------------------------------------------------------------------------------------ */

// Rec collects, for one executed case, the class labels it belongs to and whether (and with which shape) it is
// non-trivial by the property's stated rule.
type Rec struct {
	classes    map[string]int
	nontrivial bool
	shapes     []uint64
}

func newRec() *Rec { return &Rec{classes: map[string]int{}} }

// Class counts one occurrence of a labelled class of behaviour in the current case.
func (r *Rec) Class(name string) { r.classes[name]++ }

// ClassN counts n occurrences.
func (r *Rec) ClassN(name string, n int) {
	if n > 0 {
		r.classes[name] += n
	}
}

// NonTrivial marks the case (or a part of it) as non-trivial; shape identifies it for the distinct count.
func (r *Rec) NonTrivial(shape uint64) {
	r.nontrivial = true
	r.shapes = append(r.shapes, shape)
}

const maxShapes = 300000

type stats struct {
	Property     string            `json:"property"`
	Sub          string            `json:"sub"`
	Tier         string            `json:"tier"`
	VerifSeed    int64             `json:"verif_seed"`
	RapidSeed    uint64            `json:"rapid_seed"`
	Shard        int               `json:"shard"`
	Requested    int               `json:"requested"`
	Evaluations  int               `json:"evaluations"`
	NonTrivial   int               `json:"nontrivial_cases"`
	ShapesCapped bool              `json:"shapes_capped"`
	Classes      map[string]int    `json:"classes"`
	Samples      []json.RawMessage `json:"samples"`
	Failed       bool              `json:"failed"`
	WallS        float64           `json:"wall_s"`
	shapes       map[uint64]struct{}
}

type failure struct {
	Property  string          `json:"property"`
	Sub       string          `json:"sub"`
	Tier      string          `json:"tier"`
	VerifSeed int64           `json:"verif_seed"`
	RapidSeed uint64          `json:"rapid_seed"`
	Case      json.RawMessage `json:"case"`
	Failure   string          `json:"failure"`
	// LogLevel: the library's package-level log level while the case ran (part of the generated input: results must not
	// depend on it; the log functions themselves are replaced by no-ops). Empty = error.
	LogLevel string `json:"log_level,omitempty"`
}

var logLevels = []neat.LoggerLevel{neat.LogLevelError, neat.LogLevelDebug, neat.LogLevelInfo, neat.LogLevelWarning, neat.LogLevelDebug}

func setLogLevel(l string) {
	if l == "" {
		l = string(neat.LogLevelError)
	}
	neat.LogLevel = neat.LoggerLevel(l)
}

/* ------------------------------------------------------------------------------------------------
   Environment
   ------------------------------------------------------------------------------------------------ */

func envInt(name string, def int64) int64 {
	if v, ok := os.LookupEnv(name); ok {
		if n, err := strconv.ParseInt(v, 10, 64); err == nil {
			return n
		}
	}
	return def
}

func tier() string {
	if os.Getenv("VERIF_TIER") == "thorough" {
		return "thorough"
	}
	return "quick"
}

func thorough() bool { return tier() == "thorough" }

// pick returns q in the quick tier and t in the thorough tier.
func pick(q, t int) int {
	if thorough() {
		return t
	}
	return q
}

func splitmix(x uint64) uint64 {
	x += 0x9e3779b97f4a7c15
	z := x
	z = (z ^ (z >> 30)) * 0xbf58476d1ce4e5b9
	z = (z ^ (z >> 27)) * 0x94d049bb133111eb
	return z ^ (z >> 31)
}

func rapidSeedFor(property, sub string, verifSeed int64, shard int) uint64 {
	s := splitmix(uint64(verifSeed) ^ hashOf(property, sub))
	s = splitmix(s + uint64(shard)*0x632be59bd9b4e019)
	if s == 0 {
		s = 1
	}
	return s
}

func outDir() string {
	d := os.Getenv("VERIF_OUT")
	if d == "" {
		d = filepath.Join(os.TempDir(), "verif-out")
	}
	_ = os.MkdirAll(d, 0o755)
	return d
}

/* ------------------------------------------------------------------------------------------------
   Library set-up shared by all properties
   ------------------------------------------------------------------------------------------------ */

func TestMain(m *testing.M) {
	// The library prints an error line per log call unless a level is set; logging is irrelevant here.
	neat.LogLevel = neat.LogLevelError
	noop := func(string) {}
	neat.DebugLog, neat.InfoLog, neat.WarnLog = noop, noop, noop
	neat.ErrorLog = noop
	// goNEAT takes every random decision from the global math/rand source; the harness re-seeds it per case.
	rand.Seed(7)
	a := rand.Int63()
	rand.Seed(7)
	if a != rand.Int63() {
		fmt.Println("FATAL: math/rand.Seed has no effect (GODEBUG randseednop?) - seeds would not be reproducible")
		os.Exit(3)
	}
	flag.Parse()
	os.Exit(m.Run())
}

// seedLibrary seeds the global random source that the library draws from.
func seedLibrary(seed int64) { rand.Seed(seed) }

/* ------------------------------------------------------------------------------------------------
   Running a property
   ------------------------------------------------------------------------------------------------ */

type replayFn func(raw json.RawMessage) error

var replayers = map[string]replayFn{}

func registerReplay[C any](property, sub string, check func(C, *Rec) error) {
	replayers[property+"/"+sub] = func(raw json.RawMessage) error {
		var c C
		if err := json.Unmarshal(raw, &c); err != nil {
			return fmt.Errorf("can not decode case: %v", err)
		}
		return timedCheck(check, c, newRec(), func(msg string) {
			fmt.Printf("REPLAY-FAILS property=%s sub=%s: %s\n", property, sub, firstLines(msg, 2))
		})
	}
}

// safeCheck runs a check and converts a panic (of the library or of the harness) into a failure.
func safeCheck[C any](check func(C, *Rec) error, c C, rec *Rec) (err error) {
	defer func() {
		if r := recover(); r != nil {
			err = fmt.Errorf("PANIC: %v\n%s", r, firstLines(string(debug.Stack()), 40))
		}
	}()
	return check(c, rec)
}

// caseTimeout: a generated case takes milliseconds to a few seconds; one that has not returned after this long (two orders of
// magnitude more) is a call of the library that does not come back (deadlock, endless loop). The watchdog can not interrupt
// it, so it reports the case and ends the process; the driver confirms by replaying the case, which must hang again.
func caseTimeout() time.Duration {
	return time.Duration(envInt("VERIF_CASE_TIMEOUT_S", 180)) * time.Second
}

var errHang = fmt.Errorf("the case did not return")

// timedCheck runs safeCheck under the watchdog. onHang is called (once) before the process exits.
func timedCheck[C any](check func(C, *Rec) error, c C, rec *Rec, onHang func(msg string)) error {
	done := make(chan error, 1)
	go func() { done <- safeCheck(check, c, rec) }()
	select {
	case err := <-done:
		return err
	case <-time.After(caseTimeout()):
		msg := fmt.Sprintf("the library call did not return within %v (deadlock or endless loop); goroutines:\n%s", caseTimeout(), firstLines(allStacks(), 60))
		onHang(msg)
		fmt.Println("HANG: " + firstLines(msg, 3))
		os.Exit(1)
		return errHang
	}
}

func allStacks() string {
	buf := make([]byte, 1<<16)
	n := runtime.Stack(buf, true)
	return string(buf[:n])
}

// runProp drives one generator/check pair with rapid. quick and thoroughChecks are the numbers of cases per
// process in the two tiers (the thorough tier is additionally sharded over processes by the driver).
func runProp[C any](t *testing.T, property, sub string, quickChecks, thoroughChecks int, gen *rapid.Generator[C], check func(C, *Rec) error) {
	verifSeed := envInt("VERIF_SEED", 1)
	shard := int(envInt("VERIF_SHARD", 0))
	checks := pick(quickChecks, thoroughChecks)
	if mult := envInt("VERIF_CHECKS_PCT", 100); mult != 100 {
		checks = int(int64(checks) * mult / 100)
		if checks < 1 {
			checks = 1
		}
	}
	seed := rapidSeedFor(property, sub, verifSeed, shard)
	_ = flag.Set("rapid.checks", strconv.Itoa(checks))
	_ = flag.Set("rapid.seed", strconv.FormatUint(seed, 10))
	_ = flag.Set("rapid.nofailfile", "true")
	if st := os.Getenv("VERIF_SHRINKTIME"); st != "" {
		_ = flag.Set("rapid.shrinktime", st)
	}
	sideFile := os.Getenv("VERIF_SIDEFILE") == "1"
	dir := outDir()
	base := fmt.Sprintf("%s-%s-%d", property, sub, shard)

	st := &stats{Property: property, Sub: sub, Tier: tier(), VerifSeed: verifSeed, RapidSeed: seed, Shard: shard,
		Requested: checks, Classes: map[string]int{}, shapes: map[uint64]struct{}{}}
	var lastFail *failure
	start := time.Now()

	defer func() {
		st.WallS = time.Since(start).Seconds()
		st.Failed = lastFail != nil || t.Failed()
		writeJSON(filepath.Join(dir, "stats-"+base+".json"), st)
		writeShapes(filepath.Join(dir, "shapes-"+base+".bin"), st.shapes)
		if lastFail != nil {
			writeJSON(filepath.Join(dir, "fail-"+base+".json"), lastFail)
		} else if t.Failed() {
			// rapid itself failed (e.g. could not generate enough valid cases): make that visible to the driver
			writeJSON(filepath.Join(dir, "harness-error-"+base+".json"), map[string]string{"error": "test failed without a failing case"})
		}
	}()

	rapid.Check(t, func(rt *rapid.T) {
		c := gen.Draw(rt, "case")
		level := string(rapid.SampledFrom(logLevels).Draw(rt, "log level"))
		setLogLevel(level)
		if sideFile {
			writeJSON(filepath.Join(dir, "current-"+base+".json"), &failure{Property: property, Sub: sub, Tier: tier(),
				VerifSeed: verifSeed, RapidSeed: seed, Case: mustJSON(c), Failure: "process died while executing this case", LogLevel: level})
		}
		rec := newRec()
		err := timedCheck(check, c, rec, func(msg string) {
			writeJSON(filepath.Join(dir, "fail-"+base+".json"), &failure{Property: property, Sub: sub, Tier: tier(), VerifSeed: verifSeed,
				RapidSeed: seed, Case: mustJSON(c), Failure: msg, LogLevel: level})
		})
		if level == string(neat.LogLevelDebug) {
			rec.Class("log level debug")
		}
		if lastFail == nil {
			// only cases of the search phase are counted, not the shrinker's re-executions
			st.Evaluations++
			for k, v := range rec.classes {
				st.Classes[k] += v
			}
			if rec.nontrivial {
				st.NonTrivial++
				for _, s := range rec.shapes {
					if len(st.shapes) < maxShapes {
						st.shapes[s] = struct{}{}
					} else {
						st.ShapesCapped = true
					}
				}
			}
			if len(st.Samples) < 3 || (rec.nontrivial && len(st.Samples) < 6) {
				if raw := mustJSON(c); len(raw) < 20000 {
					st.Samples = append(st.Samples, raw)
				}
			}
		}
		if err != nil {
			lastFail = &failure{Property: property, Sub: sub, Tier: tier(), VerifSeed: verifSeed, RapidSeed: seed,
				Case: mustJSON(c), Failure: err.Error(), LogLevel: level}
			rt.Fatalf("%s/%s violated: %v", property, sub, err)
		}
	})
}

func mustJSON(v interface{}) json.RawMessage {
	b, err := json.Marshal(v)
	if err != nil {
		b, _ = json.Marshal(fmt.Sprintf("unserialisable case: %v", err))
	}
	return b
}

func writeJSON(path string, v interface{}) {
	b, err := json.MarshalIndent(v, "", " ")
	if err != nil {
		b = []byte(fmt.Sprintf("{\"error\": %q}", err.Error()))
	}
	tmp := path + ".tmp"
	if err := os.WriteFile(tmp, b, 0o644); err == nil {
		_ = os.Rename(tmp, path)
	}
}

func writeShapes(path string, shapes map[uint64]struct{}) {
	buf := make([]byte, 0, 8*len(shapes))
	var tmp [8]byte
	for s := range shapes {
		binary.LittleEndian.PutUint64(tmp[:], s)
		buf = append(buf, tmp[:]...)
	}
	_ = os.WriteFile(path, buf, 0o644)
}

// TestReplay re-executes one saved case (VERIF_REPLAY=<file>) without rapid.
func TestReplay(t *testing.T) {
	path := os.Getenv("VERIF_REPLAY")
	if path == "" {
		t.Skip("VERIF_REPLAY not set")
	}
	raw, err := os.ReadFile(path)
	if err != nil {
		t.Fatalf("can not read replay file: %v", err)
	}
	var f failure
	if err := json.Unmarshal(raw, &f); err != nil {
		t.Fatalf("can not decode replay file: %v", err)
	}
	fn, ok := replayers[f.Property+"/"+f.Sub]
	if !ok {
		t.Fatalf("no replayer for %s/%s", f.Property, f.Sub)
	}
	times := int(envInt("VERIF_REPLAY_TIMES", 1))
	setLogLevel(f.LogLevel)
	for i := 0; i < times; i++ {
		if err := fn(f.Case); err != nil {
			fmt.Printf("REPLAY-FAILS property=%s sub=%s: %v\n", f.Property, f.Sub, err)
			t.Fatalf("replayed case still fails: %v", err)
		}
	}
	fmt.Printf("REPLAY-PASSES property=%s sub=%s\n", f.Property, f.Sub)
}

/* ------------------------------------------------------------------------------------------------
   Coverage-guided fuzzing of a property (thorough tier): Go's native fuzzer mutates the byte string that rapid
   decodes into a case (rapid.MakeFuzz), so the same generators and checks are driven by coverage feedback from the
   library's code instead of by rapid's random source. A failing case is saved in the harness's own JSON form and is
   replayed like any other (TestReplay); the fuzzer's own corpus entry is only a by-product.
   ------------------------------------------------------------------------------------------------ */

type fuzzStats struct {
	Property   string         `json:"property"`
	Sub        string         `json:"sub"`
	Pid        int            `json:"pid"`
	Execs      int            `json:"execs"`
	NonTrivial int            `json:"nontrivial_cases"`
	Classes    map[string]int `json:"classes"`
	shapes     map[uint64]struct{}
}

func fuzzProp[C any](f *testing.F, property, sub string, gen *rapid.Generator[C], check func(C, *Rec) error) {
	dir := outDir()
	// seed corpus: the all-zero stream (minimal case) and a few fixed pseudo-random streams
	f.Add([]byte{})
	x := hashOf(property, sub)
	for i := 0; i < 9; i++ {
		// 512 B .. 2 KiB, then 16, 32 and 64 KiB: a case of the larger generators (families of genomes, histories) consumes
		// several thousand 8-byte draws, and a stream that runs dry is discarded
		size := 512 << uint(i%3)
		if i >= 6 {
			size = 16384 << uint(i-6)
		}
		buf := make([]byte, size)
		for j := 0; j+8 <= len(buf); j += 8 {
			x = splitmix(x)
			binary.LittleEndian.PutUint64(buf[j:], x)
		}
		f.Add(buf)
	}
	st := &fuzzStats{Property: property, Sub: "fuzz:" + sub, Pid: os.Getpid(), Classes: map[string]int{}, shapes: map[uint64]struct{}{}}
	flush := func() {
		writeJSON(filepath.Join(dir, fmt.Sprintf("fuzzstats-%s-%s-%d.json", property, sub, st.Pid)), st)
		writeShapes(filepath.Join(dir, fmt.Sprintf("shapes-%s-fuzz%s-%d.bin", property, sub, st.Pid)), st.shapes)
	}
	f.Fuzz(rapid.MakeFuzz(func(rt *rapid.T) {
		c := gen.Draw(rt, "case")
		level := string(rapid.SampledFrom(logLevels).Draw(rt, "log level"))
		setLogLevel(level)
		rec := newRec()
		err := safeCheck(check, c, rec)
		st.Execs++
		for k, v := range rec.classes {
			st.Classes[k] += v
		}
		if rec.nontrivial {
			st.NonTrivial++
			for _, s := range rec.shapes {
				if len(st.shapes) < maxShapes/8 {
					st.shapes[s] = struct{}{}
				}
			}
		}
		if st.Execs%2000 == 0 || err != nil {
			flush()
		}
		if err != nil {
			writeJSON(filepath.Join(dir, fmt.Sprintf("fail-%s-%s-fuzz%d.json", property, sub, st.Pid)), &failure{Property: property, Sub: sub,
				Tier: "thorough", VerifSeed: envInt("VERIF_SEED", 1), Case: mustJSON(c), Failure: err.Error(), LogLevel: level})
			rt.Fatalf("%s/%s violated: %v", property, sub, err)
		}
	}))
}
